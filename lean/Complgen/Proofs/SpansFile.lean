/-
C13 / C05 (whole files, with positions): in the grammar `Grammar::parse` returns for a printed file of the
larger fragment (`StmtNF'`, any admissible layout `GLayout'`, `Proofs/StatementsFull.lean`) EVERY SPAN POINTS AT
ITS CONSTRUCT (`grammar_spans_in_file`), the statement-level spans and all the spans of the expressions.

What the statement-level spans cover (read off `call_variant`, `nonterm_def_statement`, `nonterm`,
`nonterm_specialization` of `Model/Parse.lean`):
  * `.call name nameSpan e`: `nameSpan` covers the command name, from its first to its last character;
  * `.defn name span none e` (`<NAME> ::= e;`): `span` covers `<NAME>`, from `<` to `>`;
  * `.defn name span (some (shell, shellSpan)) e` (`<NAME@SHELL> ::= e;`): `span` covers `<NAME@SHELL>` from `<`
    to `>`, `shellSpan` the shell name `SHELL` only (after `@`, before `>`);
  * the expression is laid out (`PlacedL'` of `Proofs/SpansFull.lean`, context 0) at the state reached by
    consuming the file up to the first character of the expression: after the name and the layout behind it
    (`.call`), after the head, the layout, `::=` or `=`, and the layout behind it (`.defn`).

`StmtPlaced L s st st'`: the statement `st'` is `st` with these spans when the text of `st` (`ppBodyL' L st`)
begins at the state `s`; `StmtsPlaced`: the statements of a file one after the other.  `statement_spans`,
`statements_spans`, `grammar_spans` redo `statement_roundtrip_full_layout`, `statements_roundtrip'`,
`grammar_roundtrip_full_layout` with these relations instead of "equal up to spans".  `grammar_spans_in_file`
is the statement by statement form: the offset `stmtStart` of every statement in the file, the text that stands
there, all spans of the statement as offsets into the file (`stmtSpans`, `stmtOffs`), the text between the two
offsets of every span (`stmtTexts`), and line (1 + line feeds before) and byte column (1 + bytes since the last
line feed) of the start of every span.
-/
import Complgen.Proofs.SpansFull
import Complgen.Proofs.StatementsFull
namespace Complgen.Parse.Full
open Complgen Complgen.Parse

/-! ### the head of a definition, with its spans -/

/-- `<NAME@SHELL>`: the span of the head runs from `<` to `>`, the span of the shell covers `SHELL` -/
theorem nontermSpec_some_span (n sh rest : List Char) (s : PState) (hn : n ≠ [])
    (hgt : ∀ c ∈ n, c ≠ '>' ∧ c ≠ '@') (hsh : sh ≠ []) (hgt' : ∀ c ∈ sh, c ≠ '>')
    (hs : s.rest = '<' :: n ++ '@' :: sh ++ '>' :: rest) :
    nontermSpecialization s =
      some (s.adv (n.length + sh.length + 3), String.ofList n, spanOf s (n.length + sh.length + 3),
        String.ofList sh, spanOf (s.adv (n.length + 2)) sh.length) := by
  have hs' : s.rest = '<' :: (n ++ '@' :: (sh ++ '>' :: rest)) := by rw [hs]; simp
  have h1 := char?_some '<' s _ hs'
  have hr1 : (s.adv 1).rest = n ++ '@' :: (sh ++ '>' :: rest) := by rw [adv_rest', hs']; rfl
  have h2 := isNot_ok ['>', '@'] n _ (s.adv 1) hn
    (fun c hc => by simp [(hgt c hc).1, (hgt c hc).2])
    (.inr ⟨'@', _, rfl, by decide⟩) hr1
  have hr2 := adv_rest_append _ n _ hr1
  have h3 := char?_some '@' _ _ hr2
  have hr3 : (((s.adv 1).adv n.length).adv 1).rest = sh ++ '>' :: rest := by rw [adv_rest', hr2]; rfl
  have h4 := isNot_ok ['>'] sh _ _ hsh (fun c hc => by simp [hgt' c hc]) (.inr ⟨'>', rest, rfl, by decide⟩) hr3
  have hr4 := adv_rest_append _ sh _ hr3
  have h5 := char?_some '>' _ _ hr4
  have hadv : ((((s.adv 1).adv n.length).adv 1).adv sh.length).adv 1 = s.adv (n.length + sh.length + 3) := by
    simp only [adv_add']; congr 1; omega
  have hadv2 : ((s.adv 1).adv n.length).adv 1 = s.adv (n.length + 2) := by
    simp only [adv_add']; congr 1; omega
  unfold nontermSpecialization
  simp only [h1, h2, h3, h4, h5, Option.bind_eq_bind, Option.bind_some, hadv]
  simp only [hadv2, spanOf]

/-- the spans of the head of a definition whose text begins at `s`: the span of `<NAME>` or `<NAME@SHELL>`, and
the shell with the span of its name -/
def headSpans (n : String) (shell : Option (String × Span)) (s : PState) : Span × Option (String × Span) :=
  match shell with
  | none => (spanOf s (n.toList.length + 2), none)
  | some (sh, _) => (spanOf s (n.toList.length + sh.toList.length + 3),
      some (sh, spanOf (s.adv (n.toList.length + 2)) sh.toList.length))

theorem defHead_span (n : String) (shell : Option (String × Span)) (rest : List Char) (s : PState)
    (hn : n.toList ≠ []) (hgt : ∀ c ∈ n.toList, c ≠ '>' ∧ c ≠ '@')
    (hsh : ∀ sh x, shell = some (sh, x) → sh.toList ≠ [] ∧ ∀ c ∈ sh.toList, c ≠ '>')
    (hs : s.rest = headText n shell ++ rest) :
    defHead s = some (s.adv (headText n shell).length, n, (headSpans n shell s).1, (headSpans n shell s).2) := by
  cases shell with
  | none =>
    have hs' : s.rest = '<' :: n.toList ++ '>' :: rest := by rw [hs]; simp [headText]
    have h1 := nontermSpec_none n.toList rest s hn hgt hs'
    have h2 := nonterm_ok_span n.toList rest s hn (fun c hc => (hgt c hc).1) hs'
    unfold defHead
    rw [h1, h2, String.ofList_toList]
    simp [headText, headSpans, spanOf]
  | some p =>
    obtain ⟨sh, x⟩ := p
    obtain ⟨h1, h2⟩ := hsh sh x rfl
    have hs' : s.rest = '<' :: n.toList ++ '@' :: sh.toList ++ '>' :: rest := by rw [hs]; simp [headText]
    have h := nontermSpec_some_span n.toList sh.toList rest s hn hgt h1 h2 hs'
    unfold defHead
    rw [h, String.ofList_toList, String.ofList_toList]
    simp only [headText, headSpans, List.length_cons, List.length_append, List.length_nil]
    congr 3
    omega

/-! ### the parts of a statement, with their spans -/

/-- the expression of a statement and its end -/
theorem exprEnd_spans (e : Expr) (hnf : NF' e) (lay : Layout') (adm : lay.Adm) (l : List Char)
    (hl : IsLayoutW l) (semi : Bool) (r : List Char) (s : PState)
    (hs : s.rest = ppL' lay 0 e ++ (l ++ endText semi r)) (fuel : Nat) (hf : needF e ≤ fuel) :
    ∃ e', fallback fuel s = some (s.adv (ppL' lay 0 e).length, e') ∧ PlacedL' lay 0 s e e' ∧
      endOfStatement (mb0 (s.adv (ppL' lay 0 e).length)) =
        some (s.adv ((ppL' lay 0 e).length + l.length + semi.toNat)) := by
  obtain ⟨e', he', hE⟩ :=
    fallback_spans_full_layout e hnf lay adm _ (Follows_endText l hl semi r) s hs fuel hf
  have hr3 := adv_rest_append s _ _ hs
  have hmb0 := mb0_layout _ l _ hl.1 (NBHead_endText semi r) hr3
  have hr4 := adv_rest_append _ l _ hr3
  refine ⟨e', he', hE, ?_⟩
  rw [hmb0, endOfStatement_endText _ semi r hr4, adv_add', adv_add', Nat.add_assoc]

/-- `name expr;`: the span of the name covers the name, the expression is laid out after the name and the
layout behind it -/
theorem callVariant_spans (n : List Char) (hn : n ≠ []) (hreg : ∀ c ∈ n, isRegular c = true)
    (l1 : List Char) (hl1 : IsLayoutW l1) (hne : l1 ≠ []) (e : Expr) (hnf : NF' e) (lay : Layout')
    (adm : lay.Adm) (l2 : List Char) (hl2 : IsLayoutW l2) (semi : Bool) (r : List Char) (s : PState)
    (hs : s.rest = n ++ (l1 ++ (ppL' lay 0 e ++ (l2 ++ endText semi r)))) (fuel : Nat) (hf : needF e ≤ fuel) :
    ∃ e', callVariant fuel s =
        some (s.adv (n.length + l1.length + (ppL' lay 0 e).length + l2.length + semi.toNat),
          .call (String.ofList n) (spanOf s n.length) e') ∧
      PlacedL' lay 0 (s.adv (n.length + l1.length)) e e' := by
  have hstop : StopHead (l1 ++ (ppL' lay 0 e ++ (l2 ++ endText semi r))) := by
    cases l1 with
    | nil => exact absurd rfl hne
    | cons c cs => exact .inr ⟨c, _, rfl, blank_stop hl1.head⟩
  have hterm := terminal_name n _ s hn hreg hstop hs
  have hr1 := adv_rest_append s n _ hs
  have hmb1 := mb1_layout_some _ l1 _ hl1.1 hne ((nbstart_ppL' e hnf lay adm 0).nbh _) hr1
  have hr2 := adv_rest_append _ l1 _ hr1
  obtain ⟨e', he', hE, hend⟩ := exprEnd_spans e hnf lay adm l2 hl2 semi r _ hr2 fuel hf
  refine ⟨e', ?_, by rw [← adv_add']; exact hE⟩
  unfold callVariant
  simp only [hterm, hmb1, he', hend, Option.bind_eq_bind, Option.bind_some]
  simp only [adv_add', spanOf]
  congr 3
  omega

/-- `<NAME> ::= expr;`, `<NAME@SHELL> = expr;`: the spans of the head (`headSpans`), the expression laid out
after the head, the layout, the sign and the layout behind it -/
theorem nontermDef_spans (n : String) (shell : Option (String × Span)) (hn : n.toList ≠ [])
    (hgt : ∀ c ∈ n.toList, c ≠ '>' ∧ c ≠ '@')
    (hsh : ∀ sh x, shell = some (sh, x) → sh.toList ≠ [] ∧ ∀ c ∈ sh.toList, c ≠ '>')
    (l0 : List Char) (hl0 : IsLayout l0) (b : Bool) (l1 : List Char) (hl1 : IsLayout l1)
    (e : Expr) (hnf : NF' e) (lay : Layout') (adm : lay.Adm) (l2 : List Char) (hl2 : IsLayoutW l2)
    (semi : Bool) (r : List Char) (s : PState)
    (hs : s.rest = headText n shell ++ (l0 ++ (signText b ++ (l1 ++ (ppL' lay 0 e ++ (l2 ++ endText semi r))))))
    (fuel : Nat) (hf : needF e ≤ fuel) :
    ∃ e', nontermDefStatement fuel s =
        some (s.adv ((headText n shell).length + l0.length + (signText b).length + l1.length +
            (ppL' lay 0 e).length + l2.length + semi.toNat),
          .defn n (headSpans n shell s).1 (headSpans n shell s).2 e') ∧
      PlacedL' lay 0 (s.adv ((headText n shell).length + l0.length + (signText b).length + l1.length)) e e' := by
  have hhead := defHead_span n shell _ s hn hgt hsh hs
  have hr1 := adv_rest_append s _ _ hs
  have hm1 := mb0_layout _ l0 _ hl0 (NBHead_signText b _) hr1
  have hr2 := adv_rest_append _ l0 _ hr1
  have hsign := sign_ok b _ _ hr2
  have hr3 := adv_rest_append _ (signText b) _ hr2
  have hm2 := mb0_layout _ l1 _ hl1 ((nbstart_ppL' e hnf lay adm 0).nbh _) hr3
  have hr4 := adv_rest_append _ l1 _ hr3
  obtain ⟨e', he', hE, hend⟩ := exprEnd_spans e hnf lay adm l2 hl2 semi r _ hr4 fuel hf
  refine ⟨e', ?_, by simp only [adv_add'] at hE; exact hE⟩
  rw [nontermDefStatement_eq, hhead]
  simp only [Option.bind_some, hm1, hsign, hm2, he', hend]
  simp only [adv_add']
  congr 3
  omega

/-! ### statements laid out in a text -/

/-- `StmtPlaced L s st st'`: the statement `st'` is the statement `st` with the spans the parser computes when
the text of `st` under the layout `L` (`ppBodyL' L st`) begins at the state `s`: the span of the command name,
or the spans of the head of the definition (`headSpans`); the expression laid out (`PlacedL'`, context 0) at the
state of its first character -/
def StmtPlaced (L : StmtLayout') (s : PState) : Stmt → Stmt → Prop
  | .call n _ e, st' => ∃ e', st' = .call n (spanOf s n.toList.length) e' ∧
      PlacedL' L.expr 0 (s.adv (n.toList.length + L.name.length)) e e'
  | .defn n _ shell e, st' => ∃ e', st' = .defn n (headSpans n shell s).1 (headSpans n shell s).2 e' ∧
      PlacedL' L.expr 0
        (s.adv ((headText n shell).length + L.name.length + (signText L.eq).length + L.sign.length)) e e'

/-- `alt((call_variant, nonterm_def_statement))` on a printed statement -/
theorem variant_spans (st : Stmt) (hst : StmtNF' st) (L : StmtLayout') (adm : L.Adm st) (semi : Bool)
    (r : List Char) (s : PState) (hs : s.rest = ppBodyL' L st ++ (L.semi ++ endText semi r))
    (fuel : Nat) (hf : needF st.expr ≤ fuel) :
    ∃ st', ((callVariant fuel s).orElse fun _ => nontermDefStatement fuel s) =
        some (s.adv ((ppBodyL' L st).length + L.semi.length + semi.toNat), st') ∧
      StmtPlaced L s st st' := by
  cases st with
  | call n sp e =>
    simp only [StmtNF'] at hst
    obtain ⟨h1, h2, _, hnf⟩ := hst
    have hcall := adm.nameCall rfl
    have hs' : s.rest = n.toList ++ (L.name ++ (ppL' L.expr 0 e ++ (L.semi ++ endText semi r))) := by
      rw [hs]; simp [ppBodyL']
    obtain ⟨e', h, hE⟩ := callVariant_spans n.toList h1 h2 L.name ⟨adm.name, hcall.2⟩ hcall.1 e hnf L.expr
      adm.expr L.semi adm.semi semi r s hs' fuel hf
    refine ⟨.call (String.ofList n.toList) (spanOf s n.toList.length) e', ?_, ?_⟩
    · rw [h]
      simp only [Option.orElse, ppBodyL', List.length_append]
    · rw [String.ofList_toList]
      exact ⟨e', rfl, hE⟩
  | defn n sp shell e =>
    have hparts : n.toList ≠ [] ∧ (∀ c ∈ n.toList, c ≠ '>' ∧ c ≠ '@') ∧
        (∀ sh x, shell = some (sh, x) → sh.toList ≠ [] ∧ ∀ c ∈ sh.toList, c ≠ '>') ∧ NF' e := by
      cases shell with
      | none =>
        simp only [StmtNF'] at hst
        exact ⟨hst.1, hst.2.1, fun _ _ h => (by cases h), hst.2.2⟩
      | some p =>
        obtain ⟨sh, x⟩ := p
        simp only [StmtNF'] at hst
        exact ⟨hst.1, hst.2.1, fun _ _ h => (by cases h; exact ⟨hst.2.2.1, hst.2.2.2.1⟩), hst.2.2.2.2⟩
    obtain ⟨h1, h2, h3, hnf⟩ := hparts
    have hbody : ppBodyL' L (.defn n sp shell e) =
        headText n shell ++ (L.name ++ (signText L.eq ++ (L.sign ++ ppL' L.expr 0 e))) := by
      cases shell with
      | none => simp [ppBodyL', headText]
      | some p => obtain ⟨sh, x⟩ := p; simp [ppBodyL', headText]
    have hs' : s.rest = headText n shell ++ (L.name ++ (signText L.eq ++ (L.sign ++
        (ppL' L.expr 0 e ++ (L.semi ++ endText semi r))))) := by
      rw [hs, hbody]; simp
    have hlt : ∃ r', s.rest = '<' :: r' := by
      rw [hs']; cases shell with
      | none => exact ⟨_, rfl⟩
      | some p => exact ⟨_, rfl⟩
    obtain ⟨r', hr'⟩ := hlt
    obtain ⟨e', h, hE⟩ := nontermDef_spans n shell h1 h2 h3 L.name adm.name L.eq L.sign adm.sign
      e hnf L.expr adm.expr L.semi adm.semi semi r s hs' fuel hf
    refine ⟨.defn n (headSpans n shell s).1 (headSpans n shell s).2 e', ?_, e', rfl, hE⟩
    rw [callVariant_none fuel s r' hr', h, hbody]
    simp only [Option.orElse, List.length_append]
    congr 3
    omega

/-- **`statement` on a printed statement of the larger fragment**: the statement it returns carries the spans
of the name (or of the head and the shell) and an expression every span of which points at its construct -/
theorem statement_spans (st : Stmt) (hst : StmtNF' st) (L : StmtLayout') (adm : L.Adm st)
    (semi : Bool) (rest : List Char) (hrest : NBHead rest) (hsemi : semi = false → rest = [])
    (s : PState) (hs : s.rest = ppStmtL' L semi st ++ rest) (fuel : Nat) (hf : needF st.expr ≤ fuel) :
    ∃ st', statement fuel s = some (s.adv (ppStmtL' L semi st).length, st') ∧ StmtPlaced L s st st' := by
  have hs' : s.rest = ppBodyL' L st ++ (L.semi ++ endText semi (L.next ++ rest)) := by
    rw [hs, ← endText_append semi L.next rest hsemi]; simp [ppStmtL']
  obtain ⟨st', hv, hE⟩ := variant_spans st hst L adm semi (L.next ++ rest) s hs' fuel hf
  have hs2 : s.rest = (ppBodyL' L st ++ L.semi) ++ endText semi (L.next ++ rest) := by rw [hs']; simp
  have hr1 := adv_rest_append s _ _ hs2
  have hr2 := endText_rest _ semi _ hr1
  rw [adv_add', List.length_append] at hr2
  refine ⟨st', ?_, hE⟩
  unfold statement
  rw [hv]
  simp only
  cases semi
  · simp only [Bool.false_eq_true, if_false] at hr2
    rw [mb0_nil _ hr2]
    simp [ppStmtL', endText]
  · simp only [if_true] at hr2
    rw [mb0_layout _ L.next rest adm.next hrest hr2, adv_add']
    simp only [ppStmtL', endText, if_true, List.length_append, List.length_cons, Bool.toNat_true]
    congr 3
    omega

/-- the statements of a file, one after the other from the state `s` -/
def StmtsPlaced (fin : Bool) : PState → (Nat → StmtLayout') → List Stmt → List Stmt → Prop
  | _, _, [], g' => g' = []
  | s, L, st :: sts, g' => ∃ st' r', g' = st' :: r' ∧ StmtPlaced (L 0) s st st' ∧
      StmtsPlaced fin (s.adv (ppStmtL' (L 0) (fin || !sts.isEmpty) st).length) (fun i => L (i + 1)) sts r'

/-- `many0(statement)` on the printed statements -/
theorem statements_spans (fin : Bool) : ∀ (g : List Stmt) (L : Nat → StmtLayout'), (∀ st ∈ g, StmtNF' st) →
    (∀ i st, g[i]? = some st → (L i).Adm st) → ∀ (n : Nat), g.length ≤ n →
    ∀ (fuel : Nat), (∀ st ∈ g, needF st.expr ≤ fuel) → ∀ (s : PState), s.rest = ppStmtsL' fin L g →
    ∀ acc : List Stmt, ∃ g', statements n fuel s acc = (s.adv (ppStmtsL' fin L g).length, acc ++ g') ∧
      StmtsPlaced fin s L g g'
  | [], L, _, _, n, _, fuel, _, s, hs, acc => by
    refine ⟨[], ?_, by simp [StmtsPlaced]⟩
    rw [statements_end n fuel s acc hs]
    simp [ppStmtsL', adv_zero]
  | x :: xs, L, hg, hadm, n, hn, fuel, hfuel, s, hs, acc => by
    obtain ⟨n, rfl⟩ : ∃ n', n = n' + 1 := ⟨n - 1, by simp at hn; omega⟩
    have hg' : ∀ st ∈ xs, StmtNF' st := fun y hy => hg y (by simp [hy])
    have hs' : s.rest = ppStmtL' (L 0) (fin || !xs.isEmpty) x ++ ppStmtsL' fin (fun i => L (i + 1)) xs := by
      rw [hs]; rfl
    have hsemi : (fin || !xs.isEmpty) = false → ppStmtsL' fin (fun i => L (i + 1)) xs = [] := by
      intro h
      cases xs with
      | nil => rfl
      | cons _ _ => simp at h
    obtain ⟨st', hst', hE⟩ := statement_spans x (hg x (by simp)) (L 0) (hadm 0 x (by simp))
      (fin || !xs.isEmpty) _ (NBHead_ppStmtsL' fin _ xs hg') hsemi s hs' fuel (hfuel x (by simp))
    have hr := adv_rest_append s _ _ hs'
    obtain ⟨g', hg'', hE'⟩ := statements_spans fin xs (fun i => L (i + 1)) hg' (adm_tail' hadm) n
      (by simp at hn; omega) fuel (fun y hy => hfuel y (by simp [hy])) _ hr (acc ++ [st'])
    have hpos := length_ppStmtL'_pos (L 0) (fin || !xs.isEmpty) x (hg x (by simp))
    have hlt : (s.adv (ppStmtL' (L 0) (fin || !xs.isEmpty) x).length).rest.length < s.rest.length := by
      rw [hr, hs', List.length_append]; omega
    refine ⟨st' :: g', ?_, st', g', rfl, hE, hE'⟩
    rw [statements_succ, hst']
    simp only [hlt, if_true]
    rw [hg'', adv_add']
    simp [ppStmtsL']

/-! ### up to spans -/

theorem StmtPlaced.eraseSpans {L : StmtLayout'} {s : PState} {st st' : Stmt} (h : StmtPlaced L s st st') :
    st'.eraseSpans = st.eraseSpans := by
  cases st with
  | call n sp e =>
    simp only [StmtPlaced] at h
    obtain ⟨e', rfl, h⟩ := h
    simp only [Stmt.eraseSpans, h.eraseSpans]
  | defn n sp shell e =>
    simp only [StmtPlaced] at h
    obtain ⟨e', rfl, h⟩ := h
    cases shell with
    | none => simp only [headSpans, Stmt.eraseSpans, h.eraseSpans]
    | some p => obtain ⟨sh, x⟩ := p; simp only [headSpans, Stmt.eraseSpans, h.eraseSpans]

theorem StmtsPlaced.eraseSpans {fin : Bool} : ∀ {g : List Stmt} {s : PState} {L : Nat → StmtLayout'}
    {g' : List Stmt}, StmtsPlaced fin s L g g' → g'.map Stmt.eraseSpans = g.map Stmt.eraseSpans
  | [], _, _, _, h => by simp only [StmtsPlaced] at h; subst h; rfl
  | _ :: sts, _, _, _, h => by
    simp only [StmtsPlaced] at h
    obtain ⟨st', r', rfl, h1, h2⟩ := h
    simp only [List.map_cons, h1.eraseSpans, StmtsPlaced.eraseSpans (g := sts) h2]

/-! ### statement by statement -/

/-- the offset of the first character of the `i`-th statement in `ppStmtsL' fin L g` -/
def stmtStart (fin : Bool) : (Nat → StmtLayout') → List Stmt → Nat → Nat
  | _, [], _ => 0
  | _, _ :: _, 0 => 0
  | L, st :: sts, i + 1 =>
    (ppStmtL' (L 0) (fin || !sts.isEmpty) st).length + stmtStart fin (fun j => L (j + 1)) sts i

/-- the `i`-th statement of the returned grammar is laid out at the offset `stmtStart` -/
theorem StmtsPlaced.get {fin : Bool} : ∀ {g : List Stmt} {s : PState} {L : Nat → StmtLayout'} {g' : List Stmt},
    StmtsPlaced fin s L g g' → ∀ i st, g[i]? = some st →
      ∃ st', g'[i]? = some st' ∧ StmtPlaced (L i) (s.adv (stmtStart fin L g i)) st st'
  | [], _, _, _, _, i, st, hi => by simp at hi
  | x :: xs, s, L, g', h, i, st, hi => by
    simp only [StmtsPlaced] at h
    obtain ⟨st', r', rfl, h1, h2⟩ := h
    cases i with
    | zero =>
      simp only [List.getElem?_cons_zero, Option.some.injEq] at hi
      subst hi
      exact ⟨st', by simp, by simpa [stmtStart, adv_zero] using h1⟩
    | succ i =>
      simp only [List.getElem?_cons_succ] at hi
      obtain ⟨st'', hg, hp⟩ := StmtsPlaced.get (g := xs) h2 i st hi
      refine ⟨st'', by simpa using hg, ?_⟩
      simpa [stmtStart, adv_add'] using hp

/-- the text of the `i`-th statement stands at the offset `stmtStart` -/
theorem stmtStart_text (fin : Bool) : ∀ (g : List Stmt) (L : Nat → StmtLayout') (i : Nat) (st : Stmt),
    g[i]? = some st → ∃ pre post, ppStmtsL' fin L g = pre ++ ppBodyL' (L i) st ++ post ∧
      pre.length = stmtStart fin L g i
  | [], _, i, st, hi => by simp at hi
  | x :: xs, L, i, st, hi => by
    cases i with
    | zero =>
      simp only [List.getElem?_cons_zero, Option.some.injEq] at hi
      subst hi
      exact ⟨[], (L 0).semi ++ endText (fin || !xs.isEmpty) (L 0).next ++ ppStmtsL' fin (fun j => L (j + 1)) xs,
        by simp [ppStmtsL', ppStmtL'], by simp [stmtStart]⟩
    | succ i =>
      simp only [List.getElem?_cons_succ] at hi
      obtain ⟨pre, post, h, hl⟩ := stmtStart_text fin xs (fun j => L (j + 1)) i st hi
      exact ⟨ppStmtL' (L 0) (fin || !xs.isEmpty) x ++ pre, post, by simp [ppStmtsL', h],
        by simp [stmtStart, hl]⟩

/-! ### all the spans of a statement, as offsets -/

/-- the spans of a statement: the name (or the head, then the shell), then the spans of the expression in
preorder -/
def stmtSpans : Stmt → List Span
  | .call _ sp e => sp :: spansOf e
  | .defn _ sp none e => sp :: spansOf e
  | .defn _ sp (some (_, shsp)) e => sp :: shsp :: spansOf e

/-- for every span of `stmtSpans`: the offsets of the first character of its construct and of the character
after the last one, in a text in which the statement (`ppBodyL' L st`) begins at offset `k` -/
def stmtOffs (L : StmtLayout') (k : Nat) : Stmt → List (Nat × Nat)
  | .call n _ e => (k, k + n.toList.length) :: offsL' L.expr 0 (k + (n.toList.length + L.name.length)) e
  | .defn n _ none e =>
    (k, k + (n.toList.length + 2)) ::
      offsL' L.expr 0 (k + ((headText n none).length + L.name.length + (signText L.eq).length + L.sign.length)) e
  | .defn n _ (some (sh, x)) e =>
    (k, k + (n.toList.length + sh.toList.length + 3)) ::
    (k + (n.toList.length + 2), k + (n.toList.length + 2) + sh.toList.length) ::
      offsL' L.expr 0
        (k + ((headText n (some (sh, x))).length + L.name.length + (signText L.eq).length + L.sign.length)) e

/-- the texts of the constructs of a statement, in the order of `stmtSpans`: the name; or `<NAME>`; or
`<NAME@SHELL>` and `SHELL`; then the own texts of the nodes of the expression -/
def stmtTexts (L : StmtLayout') : Stmt → List (List Char)
  | .call n _ e => n.toList :: ownTexts L.expr e
  | .defn n _ none e => ('<' :: n.toList ++ ['>']) :: ownTexts L.expr e
  | .defn n _ (some (sh, _)) e =>
    ('<' :: n.toList ++ '@' :: sh.toList ++ ['>']) :: sh.toList :: ownTexts L.expr e

theorem StmtPlaced.spans {L : StmtLayout'} {s : PState} {k : Nat} {st st' : Stmt}
    (h : StmtPlaced L (s.adv k) st st') : stmtSpans st' = (stmtOffs L k st).map (spanAt s) := by
  cases st with
  | call n sp e =>
    simp only [StmtPlaced, adv_add', spanOf_adv] at h
    obtain ⟨e', rfl, h⟩ := h
    simp only [stmtSpans, stmtOffs, List.map_cons, (placedL'_offs_all e).1 _ _ _ _ _ h]
  | defn n sp shell e =>
    cases shell with
    | none =>
      simp only [StmtPlaced, headSpans, adv_add', spanOf_adv] at h
      obtain ⟨e', rfl, h⟩ := h
      simp only [stmtSpans, stmtOffs, List.map_cons, (placedL'_offs_all e).1 _ _ _ _ _ h]
    | some p =>
      obtain ⟨sh, x⟩ := p
      simp only [StmtPlaced, headSpans, adv_add', spanOf_adv] at h
      obtain ⟨e', rfl, h⟩ := h
      simp only [stmtSpans, stmtOffs, List.map_cons, (placedL'_offs_all e).1 _ _ _ _ _ h]

/-- in any text `X` that contains the statement from offset `pre.length` on, the characters between the two
offsets of a span are the text of its construct -/
theorem stmtOffs_own_text (X : List Char) (L : StmtLayout') (st : Stmt) (hst : StmtNF' st)
    (pre post : List Char) (hX : X = pre ++ ppBodyL' L st ++ post) :
    (stmtOffs L pre.length st).map (slice X) = stmtTexts L st := by
  have hnf := hst.expr
  cases st with
  | call n sp e =>
    simp only [ppBodyL'] at hX
    have hX1 : X = pre ++ n.toList ++ (L.name ++ ppL' L.expr 0 e ++ post) := by
      rw [hX]; simp [List.append_assoc]
    have hX2 : X = (pre ++ n.toList ++ L.name) ++ ppL' L.expr 0 e ++ post := by
      rw [hX]; simp [List.append_assoc]
    have hl : pre.length + (n.toList.length + L.name.length) = (pre ++ n.toList ++ L.name).length := by
      simp
    simp only [stmtOffs, stmtTexts, List.map_cons]
    rw [slice_mid X pre _ _ hX1 _ _ rfl rfl, hl, offsL'_own_text X e hnf L.expr 0 _ post hX2]
  | defn n sp shell e =>
    cases shell with
    | none =>
      simp only [ppBodyL'] at hX
      have hX1 : X = pre ++ ('<' :: n.toList ++ ['>']) ++
          (L.name ++ signText L.eq ++ L.sign ++ ppL' L.expr 0 e ++ post) := by
        rw [hX]; simp [List.append_assoc]
      have hX2 : X = (pre ++ ('<' :: n.toList ++ ['>']) ++ L.name ++ signText L.eq ++ L.sign) ++
          ppL' L.expr 0 e ++ post := by
        rw [hX]; simp [List.append_assoc]
      have hl : pre.length + ((headText n none).length + L.name.length + (signText L.eq).length +
          L.sign.length) = (pre ++ ('<' :: n.toList ++ ['>']) ++ L.name ++ signText L.eq ++ L.sign).length := by
        simp [headText]; omega
      simp only [stmtOffs, stmtTexts, List.map_cons]
      rw [slice_mid X pre _ _ hX1 _ _ rfl (by simp), hl, offsL'_own_text X e hnf L.expr 0 _ post hX2]
    | some p =>
      obtain ⟨sh, x⟩ := p
      simp only [ppBodyL'] at hX
      have hX1 : X = pre ++ ('<' :: n.toList ++ '@' :: sh.toList ++ ['>']) ++
          (L.name ++ signText L.eq ++ L.sign ++ ppL' L.expr 0 e ++ post) := by
        rw [hX]; simp [List.append_assoc]
      have hX3 : X = (pre ++ ('<' :: n.toList ++ ['@'])) ++ sh.toList ++
          ('>' :: (L.name ++ signText L.eq ++ L.sign ++ ppL' L.expr 0 e ++ post)) := by
        rw [hX]; simp [List.append_assoc]
      have hX2 : X = (pre ++ ('<' :: n.toList ++ '@' :: sh.toList ++ ['>']) ++ L.name ++ signText L.eq ++
          L.sign) ++ ppL' L.expr 0 e ++ post := by
        rw [hX]; simp [List.append_assoc]
      have hl : pre.length + ((headText n (some (sh, x))).length + L.name.length + (signText L.eq).length +
          L.sign.length) =
          (pre ++ ('<' :: n.toList ++ '@' :: sh.toList ++ ['>']) ++ L.name ++ signText L.eq ++ L.sign).length := by
        simp [headText]; omega
      have hl3 : pre.length + (n.toList.length + 2) = (pre ++ ('<' :: n.toList ++ ['@'])).length := by
        simp
      simp only [stmtOffs, stmtTexts, List.map_cons]
      rw [slice_mid X pre _ _ hX1 _ _ rfl (by simp; omega), slice_mid X _ _ _ hX3 _ _ hl3 rfl, hl,
        offsL'_own_text X e hnf L.expr 0 _ post hX2]

end Complgen.Parse.Full

namespace Complgen.Parse
open Complgen Complgen.Parse.Full

/-- **`Grammar::parse` on a printed grammar of the larger fragment, whatever the layout**: the grammar it
returns is laid out in the file — statement after statement from the state behind the leading layout, every
statement with the spans of its name or head and an expression every span of which points at its construct
(`StmtsPlaced`) -/
theorem grammar_spans (g : Grammar) (hg : ∀ st ∈ g, StmtNF' st) (G : GLayout') (adm : G.Adm g) :
    ∃ g', parse (ppGrammarL' G g) = .ok g' ∧
      StmtsPlaced G.semi ((PState.init (ppGrammarL' G g)).adv G.lead.length) G.stmt g g' := by
  have hnb := NBHead_ppStmtsL' G.semi G.stmt g hg
  have hs0 : (PState.init (ppGrammarL' G g)).rest = G.lead ++ ppStmtsL' G.semi G.stmt g := rfl
  have hm0 := mb0_layout _ G.lead _ adm.lead hnb hs0
  have hr0 := adv_rest_append _ G.lead _ hs0
  have hlen : (ppGrammarL' G g).length = G.lead.length + (ppStmtsL' G.semi G.stmt g).length := by
    simp [ppGrammarL']
  have hfuel : ∀ st ∈ g, needF st.expr ≤ fuelFor (ppGrammarL' G g).length := by
    intro st hst
    have := needF_le_stmts G.semi g G.stmt hg adm.stmt st hst
    unfold fuelFor; omega
  have hn : g.length ≤ (ppGrammarL' G g).length + 1 := by
    have := length_le_ppStmtsL' G.semi g G.stmt hg
    omega
  obtain ⟨g', h, hE⟩ := statements_spans G.semi g G.stmt hg adm.stmt _ hn _ hfuel _ hr0 []
  have hr1 := adv_rest_append _ (ppStmtsL' G.semi G.stmt g) [] (by rw [hr0]; simp)
  refine ⟨g', ?_, hE⟩
  unfold parse
  simp only [hm0, h, List.nil_append]
  rw [mb0_nil _ hr1, hr1]
  rfl

/-- `grammar_spans` strengthens `grammar_roundtrip_full_layout` -/
theorem grammar_roundtrip_full_layout_of_spans (g : Grammar) (hg : ∀ st ∈ g, StmtNF' st) (G : GLayout')
    (adm : G.Adm g) :
    ∃ g', parse (ppGrammarL' G g) = .ok g' ∧ g'.map Stmt.eraseSpans = g.map Stmt.eraseSpans := by
  obtain ⟨g', h1, h2⟩ := grammar_spans g hg G adm
  exact ⟨g', h1, h2.eraseSpans⟩

/-- the offset in the printed file of the first character of the `i`-th statement -/
def Full.stmtOffset (G : GLayout') (g : Grammar) (i : Nat) : Nat :=
  G.lead.length + stmtStart G.semi G.stmt g i

/-- **Every span of a parsed file points at its construct.**  A grammar of the larger fragment printed with any
admissible layout is parsed (`Grammar::parse`) as the same grammar up to spans, and for every statement `i`:
the text of the statement stands in the file `t` at the offset `stmtOffset G g i`; the parsed statement is laid
out there (`StmtPlaced`: the span of the command name, or of `<NAME>` / `<NAME@SHELL>` and of `SHELL`, computed
from the state reached by consuming the file up to the first character of the name or head; the expression
`PlacedL'` at the state reached by consuming the file up to the expression's first character); all spans of the
statement (`stmtSpans`: name or head, shell, every node of the expression in preorder) are the spans between
the offsets `stmtOffs` of the file; the characters of the file between the two offsets of a span are the text
of its construct (`stmtTexts`); and every span starts at the line (1 + line feeds before) and byte column
(1 + bytes since the last line feed) of its first offset. -/
theorem grammar_spans_in_file (g : Grammar) (hg : ∀ st ∈ g, StmtNF' st) (G : GLayout') (adm : G.Adm g) :
    ∃ g', parse (ppGrammarL' G g) = .ok g' ∧ g'.map Stmt.eraseSpans = g.map Stmt.eraseSpans ∧
      ∀ i st, g[i]? = some st → ∃ st', g'[i]? = some st' ∧
        (∃ post, ppGrammarL' G g =
          (ppGrammarL' G g).take (stmtOffset G g i) ++ ppBodyL' (G.stmt i) st ++ post) ∧
        StmtPlaced (G.stmt i) ((PState.init (ppGrammarL' G g)).adv (stmtOffset G g i)) st st' ∧
        stmtSpans st' =
          (stmtOffs (G.stmt i) (stmtOffset G g i) st).map (spanAt (PState.init (ppGrammarL' G g))) ∧
        (stmtOffs (G.stmt i) (stmtOffset G g i) st).map (slice (ppGrammarL' G g)) = stmtTexts (G.stmt i) st ∧
        ∀ sp ∈ stmtSpans st', ∃ ab ∈ stmtOffs (G.stmt i) (stmtOffset G g i) st,
          sp.line = 1 + ((ppGrammarL' G g).take ab.1).count '\n' ∧
          sp.cs = 1 + bytesLen (Parse.Pos.lastLine ((ppGrammarL' G g).take ab.1)) := by
  obtain ⟨g', h1, h2⟩ := grammar_spans g hg G adm
  refine ⟨g', h1, h2.eraseSpans, ?_⟩
  intro i st hi
  obtain ⟨st', hget, hp⟩ := h2.get i st hi
  rw [adv_add'] at hp
  obtain ⟨pre, post, htext, hlen⟩ := stmtStart_text G.semi g G.stmt i st hi
  have hX : ppGrammarL' G g = (G.lead ++ pre) ++ ppBodyL' (G.stmt i) st ++ post := by
    simp [ppGrammarL', htext, List.append_assoc]
  have hoff : stmtOffset G g i = (G.lead ++ pre).length := by simp [stmtOffset, hlen]
  have htake : (ppGrammarL' G g).take (stmtOffset G g i) = G.lead ++ pre := by
    rw [hoff]
    conv => lhs; rw [hX, List.append_assoc]
    exact List.take_left
  have hsp := hp.spans
  refine ⟨st', hget, ⟨post, by rw [htake]; exact hX⟩, hp, hsp, ?_, ?_⟩
  · rw [hoff]
    exact stmtOffs_own_text _ (G.stmt i) st (hg st (List.mem_of_getElem? hi)) _ post hX
  · intro sp hsp'
    rw [hsp, List.mem_map] at hsp'
    obtain ⟨ab, hab, rfl⟩ := hsp'
    exact ⟨ab, hab, spanAt_init _ ab⟩

/-! ### examples -/
namespace Full

/-- the example of `Proofs/StatementsFull.lean` with comments everywhere: the theorem applies -/
example : ∃ g', parse (ppGrammarL' exGLayout' exGrammar') = .ok g' ∧
    StmtsPlaced exGLayout'.semi ((PState.init (ppGrammarL' exGLayout' exGrammar')).adv exGLayout'.lead.length)
      exGLayout'.stmt exGrammar' g' :=
  grammar_spans exGrammar' exGrammar'_nf exGLayout' exGLayout'_adm

/-- the spans of the statements read from a file -/
def stmtsRead (txt : String) : Option (List (List Span)) :=
  match parse txt.toList with
  | .ok g => some (g.map stmtSpans)
  | .error _ => none

set_option maxRecDepth 100000 in
/-- the name of a command; `<V@bash>` from `<` to `>` and `bash`; the expressions -/
example : stmtsRead "cmd a;\n<V@bash> ::= x;" =
    some [[⟨1, 1, 4⟩, ⟨1, 5, 6⟩], [⟨2, 1, 9⟩, ⟨2, 4, 8⟩, ⟨2, 14, 15⟩]] := by decide

end Full

end Complgen.Parse
