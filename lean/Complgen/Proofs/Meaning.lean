/-
C02 / C15: what the model of check.rs's validation returns is the meaning the specification gives
the grammar (`Spec.meaningAt`): choice of definitions, dependency-ordered expansion, words, levels.
-/
import Complgen.Proofs.Expand
namespace Complgen.Check
open Complgen

/-! ### the dependency graph against the names of the bodies -/

theorem insert_keys {α} (m : AList α) (k : String) (v : α) (k' : String)
    (h : k' ∈ m.map (·.1) ∨ k' = k) : k' ∈ (m.insert k v).map (·.1) := by
  unfold AList.insert
  by_cases hc : m.contains k = true
  · simp only [hc, if_true]
    have hkeys : (m.map fun p => if p.1 == k then (k, v) else p).map (·.1) = m.map (·.1) := by
      rw [List.map_map]
      apply List.map_congr_left
      intro p _
      by_cases hp : p.1 = k
      · simp [hp]
      · simp [hp]
    rw [hkeys]
    rcases h with h | rfl
    · exact h
    · unfold AList.contains at hc
      obtain ⟨q, hq, hqe⟩ := List.any_eq_true.mp hc
      have : q.1 = k' := by simpa using hqe
      exact List.mem_map.mpr ⟨q, hq, this⟩
  · have hc' : m.contains k = false := by simpa using hc
    simp only [hc', Bool.false_eq_true, if_false]
    rcases h with h | rfl
    · simp only [List.map_append, List.mem_append]; exact .inl h
    · simp

mutual
theorem refsAcc_keys : ∀ (e : Expr) (acc : AList Span) (k : String), NoDD e = true →
    (k ∈ acc.map (·.1) ∨ k ∈ Spec.names e) → k ∈ (refsAcc e acc).map (·.1)
  | .term .., acc, k, _, h => by simpa [refsAcc, Spec.names] using h
  | .cmd .., acc, k, _, h => by simpa [refsAcc, Spec.names] using h
  | .dd c d s, acc, k, hd, h => by simp [NoDD] at hd
  | .nonterm n l s, acc, k, _, h => by
    simp only [refsAcc]
    apply insert_keys
    simpa [Spec.names] using h
  | .sub c l s, acc, k, hd, h => by
    simp only [refsAcc]; exact refsAcc_keys c acc k (by simpa [NoDD] using hd) (by simpa [Spec.names] using h)
  | .opt c s, acc, k, hd, h => by
    simp only [refsAcc]; exact refsAcc_keys c acc k (by simpa [NoDD] using hd) (by simpa [Spec.names] using h)
  | .many1 c s, acc, k, hd, h => by
    simp only [refsAcc]; exact refsAcc_keys c acc k (by simpa [NoDD] using hd) (by simpa [Spec.names] using h)
  | .seq cs s, acc, k, hd, h => by
    simp only [refsAcc]; exact refsAccL_keys cs acc k (by simpa [NoDD] using hd) (by simpa [Spec.names] using h)
  | .alt cs s, acc, k, hd, h => by
    simp only [refsAcc]; exact refsAccL_keys cs acc k (by simpa [NoDD] using hd) (by simpa [Spec.names] using h)
  | .fb cs s, acc, k, hd, h => by
    simp only [refsAcc]; exact refsAccL_keys cs acc k (by simpa [NoDD] using hd) (by simpa [Spec.names] using h)
theorem refsAccL_keys : ∀ (es : ExprL) (acc : AList Span) (k : String), NoDDL es = true →
    (k ∈ acc.map (·.1) ∨ k ∈ Spec.namesL es) → k ∈ (refsAccL es acc).map (·.1)
  | .nil, acc, k, _, h => by simpa [refsAccL, Spec.namesL] using h
  | .cons e es, acc, k, hd, h => by
    simp only [NoDDL, Bool.and_eq_true] at hd
    simp only [refsAccL]
    apply refsAccL_keys es _ _ hd.2
    simp only [Spec.namesL, List.mem_append] at h
    rcases h with h | h | h
    · exact .inl (refsAcc_keys e acc k hd.1 (.inl h))
    · exact .inl (refsAcc_keys e acc k hd.1 (.inr h))
    · exact .inr h
end


mutual
theorem noDD_applyPick (sh : Shell) (g : Grammar) : ∀ e : Expr, NoDD (applyPick sh g e) = NoDD e
  | .term .. => by simp [applyPick, NoDD]
  | .cmd .. => by simp [applyPick, NoDD]
  | .dd .. => by simp [applyPick, NoDD]
  | .nonterm n l s => by
    unfold applyPick
    cases Spec.pick sh g n <;> simp [NoDD]
  | .sub c l s => by simp [applyPick, NoDD, noDD_applyPick sh g c]
  | .opt c s => by simp [applyPick, NoDD, noDD_applyPick sh g c]
  | .many1 c s => by simp [applyPick, NoDD, noDD_applyPick sh g c]
  | .seq cs s => by simp [applyPick, NoDD, noDDL_applyPick sh g cs]
  | .alt cs s => by simp [applyPick, NoDD, noDDL_applyPick sh g cs]
  | .fb cs s => by simp [applyPick, NoDD, noDDL_applyPick sh g cs]
theorem noDDL_applyPick (sh : Shell) (g : Grammar) : ∀ es : ExprL, NoDDL (applyPickL sh g es) = NoDDL es
  | .nil => by simp [applyPickL, NoDDL]
  | .cons e es => by simp [applyPickL, NoDDL, noDD_applyPick sh g e, noDDL_applyPick sh g es]
end

/-- the vertex depends on something -/
def hasDeps (D : AList (Span × Expr)) (v : String) : Bool := !(((depGraph D).get? v).getD []).isEmpty

theorem kids_of_not_hasDeps (D : AList (Span × Expr)) (v : String) (h : hasDeps D v = false) :
    kids (depGraph D) v = [] := by
  unfold hasDeps at h
  unfold kids
  have : ((depGraph D).get? v).getD [] = [] := by simpa using h
  rw [this]; rfl

theorem isSome_of_hasDeps (D : AList (Span × Expr)) (v : String) (h : hasDeps D v = true) :
    (D.get? v).isSome = true := by
  unfold hasDeps at h
  rw [depGraph_get] at h
  cases hg : D.get? v with
  | none => rw [hg] at h; simp at h
  | some x => rfl

theorem depNames_sub_kids (sh : Shell) (g : Grammar) (n m : String)
    (h : m ∈ depNames (tableOf sh g) n) : m ∈ kids (depGraph (tableOf sh g)) n := by
  unfold depNames at h
  have htab := tableOf_get sh g n
  cases hf : (plainDefs g).find? (·.1 == n) with
  | none => rw [hf] at htab; simp only [Option.map_none] at htab; rw [htab] at h; cases h
  | some x =>
    rw [hf] at htab
    simp only [Option.map_some] at htab
    rw [htab] at h
    simp only at h
    obtain ⟨hm, hc⟩ := List.mem_filter.mp h
    unfold kids
    rw [depGraph_get, htab]
    simp only [Option.map_some, Option.getD_some]
    have hdd : NoDD (applyPick sh g (distribute x.2.2)) = true := by
      rw [noDD_applyPick]; exact distribute_noDD _
    have := refsAcc_keys (applyPick sh g (distribute x.2.2)) [] m hdd (.inr hm)
    obtain ⟨p, hp, hpe⟩ := List.mem_map.mp this
    refine List.mem_map.mpr ⟨p, List.mem_filter.mpr ⟨hp, ?_⟩, hpe⟩
    show (tableOf sh g).contains p.1 = true
    rw [hpe]; exact hc

/-- the names that depend on nothing -/
def closedKeys (D : AList (Span × Expr)) : List String := (D.map (·.1)).filter fun v => !hasDeps D v

theorem sched_of_closed (sh : Shell) (g : Grammar) :
    ∀ (R2 R1 : List String), (R1 ++ R2).Nodup → Closed (depGraph (tableOf sh g)) (R1 ++ R2) →
      Sched (tableOf sh g) ((R1.filter (hasDeps (tableOf sh g))).reverse ++ closedKeys (tableOf sh g))
        (R2.filter (hasDeps (tableOf sh g)))
  | [], R1, _, _ => by simp [Sched]
  | n :: R2, R1, hnd, hcl => by
    have hnd' : ((R1 ++ [n]) ++ R2).Nodup := by simpa using hnd
    have hcl' : Closed (depGraph (tableOf sh g)) ((R1 ++ [n]) ++ R2) := by simpa using hcl
    have ih := sched_of_closed sh g R2 (R1 ++ [n]) hnd' hcl'
    by_cases hn : hasDeps (tableOf sh g) n = true
    · simp only [List.filter_cons, hn, if_true]
      refine ⟨?_, isSome_of_hasDeps _ n hn, ?_, ?_⟩
      · intro hmem
        rcases List.mem_append.mp hmem with h1 | h1
        · have h2 : n ∈ R1 := (List.mem_filter.mp (List.mem_reverse.mp h1)).1
          have := (List.nodup_append.mp hnd).2.2 n h2 n (by simp)
          exact this rfl
        · have := (List.mem_filter.mp h1).2
          simp [hn] at this
      · intro m hm
        have hk := depNames_sub_kids sh g n m hm
        have hpre : m ∈ R1 := hcl R1 n R2 rfl m hk
        by_cases hmd : hasDeps (tableOf sh g) m = true
        · exact List.mem_append_left _ (List.mem_reverse.mpr (List.mem_filter.mpr ⟨hpre, hmd⟩))
        · apply List.mem_append_right
          unfold closedKeys
          refine List.mem_filter.mpr ⟨?_, by simpa using hmd⟩
          have := kidsIn_depGraph (tableOf sh g) n m hk
          rw [verts_depGraph] at this
          exact this
      · have : (List.filter (hasDeps (tableOf sh g)) (R1 ++ [n])).reverse ++ closedKeys (tableOf sh g) =
            n :: ((List.filter (hasDeps (tableOf sh g)) R1).reverse ++ closedKeys (tableOf sh g)) := by
          simp [List.filter_append, List.filter_cons, hn]
        rw [this] at ih
        exact ih
    · have hn' : hasDeps (tableOf sh g) n = false := by simpa using hn
      simp only [List.filter_cons, hn', Bool.false_eq_true, if_false]
      have : (List.filter (hasDeps (tableOf sh g)) (R1 ++ [n])) = List.filter (hasDeps (tableOf sh g)) R1 := by
        simp [List.filter_append, List.filter_cons, hn']
      rw [this] at ih
      exact ih


theorem tableOf_keys (sh : Shell) (g : Grammar) : (tableOf sh g).map (·.1) = (plainDefs g).map (·.1) := by
  unfold tableOf; simp [List.map_map, Function.comp_def]

theorem mem_keys_of_contains {α} (m : AList α) (k : String) (h : m.contains k = true) : k ∈ m.map (·.1) := by
  unfold AList.contains at h
  obtain ⟨q, hq, hqe⟩ := List.any_eq_true.mp h
  have : q.1 = k := by simpa using hqe
  exact List.mem_map.mpr ⟨q, hq, this⟩

/-- **Dependency-ordered expansion = the specification's expansion.**  When `resolutionOrder`
succeeds on the table of (specialised) definitions, folding `resStep` over the order it returns and
resolving an expression against the result gives `Spec.expand` of that expression, for every fuel
from `depth e + Σ 2·size(definition)` on. -/
theorem expansion_correct (sh : Shell) (g : Grammar) (order : List String)
    (hnodup : ((plainDefs g).map (·.1)).Nodup) (hro : resolutionOrder (tableOf sh g) = .ok order)
    (e : Expr) (hd : NoDD e = true) (u u' : AList Span) (k : Nat)
    (hk : depth e + ((plainDefs g).map fun x => 2 * Spec.size x.2.2).sum ≤ k) :
    Spec.expand sh g k e = (resolve (order.foldl resStep (tableOf sh g, u)).1 (applyPick sh g e) u').1 := by
  obtain ⟨R, hord, hRnd, hRcl, hRall⟩ := resolutionOrder_ok (tableOf sh g) order hro
  have hsched := sched_of_closed sh g R [] (by simpa using hRnd) (by simpa using hRcl)
  simp only [List.filter_nil, List.reverse_nil, List.nil_append] at hsched
  have hord' : order = R.filter (hasDeps (tableOf sh g)) := hord
  rw [← hord'] at hsched
  have hinit := loop_init sh g (closedKeys (tableOf sh g)) (by
    intro m hm
    have hnd : hasDeps (tableOf sh g) m = false := by
      have := (List.mem_filter.mp hm).2
      simpa using this
    cases hdn : depNames (tableOf sh g) m with
    | nil => rfl
    | cons a as =>
      have : a ∈ kids (depGraph (tableOf sh g)) m := depNames_sub_kids sh g m a (by rw [hdn]; simp)
      rw [kids_of_not_hasDeps _ m hnd] at this
      cases this)
  have hinv := resFold_loop sh g order (closedKeys (tableOf sh g)) (tableOf sh g) u hinit hsched
  have hall : ∀ m, (tableOf sh g).contains m = true → m ∈ order.reverse ++ closedKeys (tableOf sh g) := by
    intro m hm
    have hkey := mem_keys_of_contains _ m hm
    have hR : m ∈ R := hRall m (by rw [verts_depGraph]; exact hkey)
    by_cases hmd : hasDeps (tableOf sh g) m = true
    · exact List.mem_append_left _ (List.mem_reverse.mpr (by rw [hord']; exact List.mem_filter.mpr ⟨hR, hmd⟩))
    · exact List.mem_append_right _ (List.mem_filter.mpr ⟨hkey, by simpa using hmd⟩)
  have hPnd : (order.reverse ++ closedKeys (tableOf sh g)).Nodup := by
    apply List.nodup_append.mpr
    refine ⟨?_, ?_, ?_⟩
    · rw [hord']; exact (List.reverse_perm _).nodup_iff.mpr (hRnd.filter _)
    · unfold closedKeys; rw [tableOf_keys]; exact hnodup.filter _
    · intro a ha b hb e
      subst e
      have h1 : hasDeps (tableOf sh g) a = true := by
        rw [hord'] at ha
        exact (List.mem_filter.mp (List.mem_reverse.mp ha)).2
      have h2 := (List.mem_filter.mp hb).2
      simp [h1] at h2
  have hb := Hb_le g _ hPnd
  exact loop_top sh g _ _ hinv hall e hd u' k (by omega)


/-! ### the specialisation loop builds the table -/

theorem specFold_table (g : Grammar) (sh : Shell) (specs : AList UserSpec) (fbs : AList String)
    (h : getSpecializations g sh = .ok (specs, fbs)) :
    ∀ (l : List (String × Span × Expr)) (acc : AList (Span × Expr) × Book), SameCmds specs acc.2 →
      (l.foldl (specStep sh fbs ((plainDefs g).map (·.1))) acc).1 =
        acc.1 ++ l.map (fun x => (x.1, (x.2.1, applyPick sh g x.2.2))) ∧
      SameCmds specs (l.foldl (specStep sh fbs ((plainDefs g).map (·.1))) acc).2
  | [], acc, hb => by simp [hb]
  | x :: rest, acc, hb => by
    have hx := specialize_eq_applyPick g sh specs fbs h x.2.2 acc.2 hb
    have ih := specFold_table g sh specs fbs h rest (specStep sh fbs ((plainDefs g).map (·.1)) acc x) (by
      unfold specStep; exact hx.2)
    simp only [List.foldl_cons]
    refine ⟨?_, ih.2⟩
    rw [ih.1]
    unfold specStep
    simp only [hx.1, List.map_cons, List.append_assoc, List.singleton_append]

/-! ### sizes -/

theorem sizeL_ofList : ∀ l : List Expr, Spec.sizeL (ExprL.ofList l) = (l.map Spec.size).sum
  | [] => rfl
  | e :: es => by simp [ExprL.ofList, Spec.sizeL, sizeL_ofList es]

def stmtSize : Stmt → Nat
  | .call _ _ e => Spec.size e
  | .defn _ _ _ e => Spec.size e

theorem foldl_total (g : Grammar) : ∀ a : Nat,
    g.foldl (fun n st => n + match st with | .call _ _ e => Spec.size e | .defn _ _ _ e => Spec.size e) a =
      a + (g.map stmtSize).sum := by
  induction g with
  | nil => intro a; simp
  | cons st rest ih =>
    intro a
    simp only [List.foldl_cons, List.map_cons, List.sum_cons]
    rw [ih]
    cases st <;> simp [stmtSize] <;> omega

theorem total_bound : ∀ g : Grammar,
    ((plainDefs g).map fun x => 2 * Spec.size x.2.2).sum + 2 * ((callsOf g).map fun c => Spec.size c.2.2).sum ≤
      2 * (g.map stmtSize).sum
  | [] => by simp [plainDefs, callsOf]
  | st :: rest => by
    have ih := total_bound rest
    cases st with
    | call n s e =>
      have h1 : plainDefs (Stmt.call n s e :: rest) = plainDefs rest := by simp [plainDefs]
      have h2 : callsOf (Stmt.call n s e :: rest) = (n, s, e) :: callsOf rest := by simp [callsOf]
      rw [h1, h2]
      simp only [List.map_cons, List.sum_cons, stmtSize]
      omega
    | defn n s shl e =>
      have h2 : callsOf (Stmt.defn n s shl e :: rest) = callsOf rest := by simp [callsOf]
      cases shl with
      | none =>
        have h1 : plainDefs (Stmt.defn n s none e :: rest) = (n, s, e) :: plainDefs rest := by simp [plainDefs]
        rw [h1, h2]
        simp only [List.map_cons, List.sum_cons, stmtSize]
        omega
      | some p =>
        have h1 : plainDefs (Stmt.defn n s (some p) e :: rest) = plainDefs rest := by simp [plainDefs]
        rw [h1, h2]
        simp only [List.map_cons, List.sum_cons, stmtSize]
        omega

theorem size_topExpr (g : Grammar) : Spec.size (topExpr g) ≤ ((callsOf g).map fun c => Spec.size c.2.2).sum + 1 := by
  unfold topExpr
  split
  · rename_i n s e hc
    rw [hc]; simp
  · simp only [Spec.size, sizeL_ofList, List.map_map, Function.comp_def]
    omega

theorem fuel_enough (g : Grammar) :
    depth (distribute (topExpr g)) + ((plainDefs g).map fun x => 2 * Spec.size x.2.2).sum ≤
      2 * (g.foldl (fun n st => n + match st with | .call _ _ e => Spec.size e | .defn _ _ _ e => Spec.size e) 0) + 8 := by
  rw [foldl_total]
  have h1 := depth_distribute (topExpr g)
  have h2 := size_topExpr g
  have h3 := total_bound g
  omega


/-! ### description nodes stay away -/

theorem expandL_noDD_step (sh : Shell) (g : Grammar) (k : Nat)
    (hE : ∀ e : Expr, NoDD e = true → NoDD (Spec.expand sh g k e) = true) :
    ∀ es : ExprL, NoDDL es = true → NoDDL (Spec.expandL sh g (k + 1) es) = true
  | .nil, _ => by simp [Spec.expandL, NoDDL]
  | .cons e es, h => by
    simp only [NoDDL, Bool.and_eq_true] at h
    simp only [Spec.expandL, NoDDL, Bool.and_eq_true]
    exact ⟨hE e h.1, expandL_noDD_step sh g k hE es h.2⟩

theorem expand_noDD (sh : Shell) (g : Grammar) : ∀ k : Nat,
    (∀ e : Expr, NoDD e = true → NoDD (Spec.expand sh g k e) = true) ∧
    (∀ es : ExprL, NoDDL es = true → NoDDL (Spec.expandL sh g k es) = true)
  | 0 => ⟨fun e h => by simpa [Spec.expand] using h, fun es h => by simpa [Spec.expandL] using h⟩
  | k + 1 => by
    have ih := expand_noDD sh g k
    have hE : ∀ e : Expr, NoDD e = true → NoDD (Spec.expand sh g (k + 1) e) = true := by
      intro e h
      cases e with
      | term t d l s => simpa [Spec.expand] using h
      | cmd c a l s => simpa [Spec.expand] using h
      | dd c d s => simp [NoDD] at h
      | nonterm n l s =>
        simp only [Spec.expand]
        cases Spec.pick sh g n with
        | command c a => simp [NoDD]
        | anyWord => simp [NoDD]
        | expr d =>
          simp only
          apply ih.1
          rw [← distr_eq_spec]
          exact distr_noDD d none
      | sub c l s => simp only [Spec.expand, NoDD] at h ⊢; exact ih.1 c h
      | opt c s => simp only [Spec.expand, NoDD] at h ⊢; exact ih.1 c h
      | many1 c s => simp only [Spec.expand, NoDD] at h ⊢; exact ih.1 c h
      | seq cs s => simp only [Spec.expand, NoDD] at h ⊢; exact ih.2 cs h
      | alt cs s => simp only [Spec.expand, NoDD] at h ⊢; exact ih.2 cs h
      | fb cs s => simp only [Spec.expand, NoDD] at h ⊢; exact ih.2 cs h
    exact ⟨hE, expandL_noDD_step sh g k ih.1⟩

mutual
theorem unword_noDD : ∀ e : Expr, NoDD e = true → NoDD (Spec.unword e) = true
  | .term .., h => by simpa [Spec.unword] using h
  | .cmd .., h => by simpa [Spec.unword] using h
  | .nonterm .., h => by simpa [Spec.unword] using h
  | .dd .., h => by simp [NoDD] at h
  | .sub c l s, h => by simp only [Spec.unword, NoDD] at h ⊢; exact unword_noDD c h
  | .opt c s, h => by simp only [Spec.unword, NoDD] at h ⊢; exact unword_noDD c h
  | .many1 c s, h => by simp only [Spec.unword, NoDD] at h ⊢; exact unword_noDD c h
  | .seq cs s, h => by simp only [Spec.unword, NoDD] at h ⊢; exact unwordL_noDD cs h
  | .alt cs s, h => by simp only [Spec.unword, NoDD] at h ⊢; exact unwordL_noDD cs h
  | .fb cs s, h => by simp only [Spec.unword, NoDD] at h ⊢; exact unwordL_noDD cs h
theorem unwordL_noDD : ∀ es : ExprL, NoDDL es = true → NoDDL (Spec.unwordL es) = true
  | .nil, _ => by simp [Spec.unwordL, NoDDL]
  | .cons e es, h => by
    simp only [NoDDL, Bool.and_eq_true] at h
    simp only [Spec.unwordL, NoDDL, Bool.and_eq_true]
    exact ⟨unword_noDD e h.1, unwordL_noDD es h.2⟩
end

mutual
theorem words_noDD : ∀ e : Expr, NoDD e = true → NoDD (Spec.words e) = true
  | .term .., h => by simpa [Spec.words] using h
  | .cmd .., h => by simpa [Spec.words] using h
  | .nonterm .., h => by simpa [Spec.words] using h
  | .dd .., h => by simp [NoDD] at h
  | .sub c l s, h => by simp only [Spec.words, NoDD] at h ⊢; exact unword_noDD c h
  | .opt c s, h => by simp only [Spec.words, NoDD] at h ⊢; exact words_noDD c h
  | .many1 c s, h => by simp only [Spec.words, NoDD] at h ⊢; exact words_noDD c h
  | .seq cs s, h => by simp only [Spec.words, NoDD] at h ⊢; exact wordsL_noDD cs h
  | .alt cs s, h => by simp only [Spec.words, NoDD] at h ⊢; exact wordsL_noDD cs h
  | .fb cs s, h => by simp only [Spec.words, NoDD] at h ⊢; exact wordsL_noDD cs h
theorem wordsL_noDD : ∀ es : ExprL, NoDDL es = true → NoDDL (Spec.wordsL es) = true
  | .nil, _ => by simp [Spec.wordsL, NoDDL]
  | .cons e es, h => by
    simp only [NoDDL, Bool.and_eq_true] at h
    simp only [Spec.wordsL, NoDDL, Bool.and_eq_true]
    exact ⟨words_noDD e h.1, wordsL_noDD es h.2⟩
end

/-! ### the call variants -/

theorem spec_calls (g : Grammar) : Spec.callBodies g = (callsOf g).map (·.2.2) := by
  induction g with
  | nil => simp [callsOf, Spec.callBodies]
  | cons st rest ih =>
    cases st with
    | call n s e =>
      have : callsOf (Stmt.call n s e :: rest) = (n, s, e) :: callsOf rest := by simp [callsOf]
      rw [this]
      unfold Spec.callBodies at ih ⊢
      simp [List.filterMap_cons, ih]
    | defn n s shl e =>
      have : callsOf (Stmt.defn n s shl e :: rest) = callsOf rest := by simp [callsOf]
      rw [this]
      unfold Spec.callBodies at ih ⊢
      simp [List.filterMap_cons, ih]

/-- the position `check.rs` records at the node that joins several call variants -/
def topSpan (g : Grammar) : Span := ((callsOf g).head?.map (·.2.2.span)).getD default

theorem spec_top (g : Grammar) : Spec.topOf (topSpan g) g = topExpr g := by
  unfold Spec.topOf
  rw [spec_calls]
  unfold topExpr topSpan
  cases hc : callsOf g with
  | nil => rfl
  | cons c rest =>
    obtain ⟨n, s, e⟩ := c
    cases rest with
    | nil => rfl
    | cons c2 rest2 => rfl


/-! ### the theorem -/

theorem finishValidate_expr (g : Grammar) (sh : Shell) (command : String) (specs : AList UserSpec)
    (fbs : AList String) (v : Valid) (hgs : getSpecializations g sh = .ok (specs, fbs))
    (hnodup : ((plainDefs g).map (·.1)).Nodup)
    (h : finishValidate g sh command ((plainDefs g).map fun x => (x.1, (x.2.1, x.2.2))) specs fbs = .ok v) :
    v.expr = Spec.meaningAt (topSpan g) g sh := by
  unfold finishValidate at h
  simp only at h
  -- the definitions after `distribute`
  have hD : (((plainDefs g).map fun x => (x.1, (x.2.1, x.2.2))).map fun x => (x.1, x.2.1, distribute x.2.2)) =
      (plainDefs g).map fun x => (x.1, (x.2.1, distribute x.2.2)) := by
    simp [List.map_map, Function.comp_def]
  rw [hD] at h
  have hdefined : (((plainDefs g).map fun x => (x.1, (x.2.1, distribute x.2.2))).map (·.1)) =
      (plainDefs g).map (·.1) := by simp [List.map_map, Function.comp_def]
  rw [hdefined] at h
  -- the specialisation loop
  have hb0 : SameCmds specs (⟨specs, ((plainDefs g).map fun x => (x.1, (x.2.1, distribute x.2.2))).map
      fun x => (x.1, x.2.1)⟩ : Book) := fun _ => rfl
  have hf1 := specFold_table g sh specs fbs hgs ((plainDefs g).map fun x => (x.1, (x.2.1, distribute x.2.2)))
    ([], ⟨specs, ((plainDefs g).map fun x => (x.1, (x.2.1, distribute x.2.2))).map fun x => (x.1, x.2.1)⟩) hb0
  generalize hr1 : ((plainDefs g).map fun x => (x.1, (x.2.1, distribute x.2.2))).foldl
    (specStep sh fbs ((plainDefs g).map (·.1)))
    ([], ⟨specs, ((plainDefs g).map fun x => (x.1, (x.2.1, distribute x.2.2))).map fun x => (x.1, x.2.1)⟩) = r1 at h hf1
  have htable : r1.1 = tableOf sh g := by
    rw [hf1.1]
    unfold tableOf
    simp [List.map_map, Function.comp_def]
  have hx2 := specialize_eq_applyPick g sh specs fbs hgs (distribute (topExpr g)) r1.2 hf1.2
  generalize hr2 : specialize sh fbs ((plainDefs g).map (·.1)) (distribute (topExpr g)) r1.2 = r2 at h hx2
  rw [htable] at h
  cases hro : resolutionOrder (tableOf sh g) with
  | error spans => rw [hro] at h; cases h
  | ok order =>
    rw [hro] at h
    simp only at h
    have hexp := expansion_correct sh g order hnodup hro (distribute (topExpr g)) (distribute_noDD _)
      r2.2.unused (order.foldl resStep (tableOf sh g, r2.2.unused)).2
      (2 * (g.foldl (fun n st => n + match st with | .call _ _ e => Spec.size e | .defn _ _ _ e => Spec.size e) 0) + 8)
      (fuel_enough g)
    generalize hr3 : order.foldl resStep (tableOf sh g, r2.2.unused) = r3 at h hexp
    cases hsp : spaces r3.1 stackFuel r2.1 [] false with
    | overflow => rw [hsp] at h; cases h
    | bad l r t => rw [hsp] at h; cases h
    | fine =>
      rw [hsp] at h
      simp only [Outcome.ok.injEq] at h
      subst h
      simp only
      rw [hx2.1, ← hexp]
      have hnd1 := (expand_noDD sh g
        (2 * (g.foldl (fun n st => n + match st with | .call _ _ e => Spec.size e | .defn _ _ _ e => Spec.size e) 0) + 8)).1
        (distribute (topExpr g)) (distribute_noDD _)
      rw [collapse_spec _ hnd1, propagate_spec _ 0 (words_noDD _ hnd1)]
      unfold Spec.meaningAt
      simp only
      rw [spec_top, ← distribute_eq_spec]
      rfl

/-- **What validation returns is the grammar's meaning.**  For every grammar and target shell the
model of check.rs accepts, the validated expression is `Spec.meaningAt`: the call variants joined,
descriptions distributed, every reference replaced by the definition chosen for the shell and
expanded to the end, juxtapositions flattened into words, `||` levels attached. -/
theorem validate_expr_eq_meaning (g : Grammar) (sh : Shell) (v : Valid) (h : validate g sh = .ok v) :
    v.expr = Spec.meaningAt (topSpan g) g sh := by
  unfold validate at h
  cases hcmd : commandOf g with
  | err c s => rw [hcmd] at h; cases h
  | crash s => rw [hcmd] at h; cases h
  | ok command =>
    rw [hcmd] at h
    simp only at h
    by_cases hnd : ((plainDefs g).map (·.1)).Nodup
    · rw [collectPlain_spec (plainDefs g) [] (fun _ _ => rfl) hnd] at h
      simp only [List.nil_append] at h
      cases hgs : getSpecializations g sh with
      | err c s => rw [hgs] at h; cases h
      | crash s => rw [hgs] at h; cases h
      | ok r =>
        obtain ⟨specs, fbs⟩ := r
        rw [hgs] at h
        simp only at h
        exact finishValidate_expr g sh command specs fbs v hgs hnd h
    · obtain ⟨spans, he⟩ := collectPlain_dup (plainDefs g) [] (.inr hnd)
      rw [he] at h; cases h


/-! ### the position at the joining node is all that distinguishes `meaningAt` from `meaning` -/

theorem meaningAt_cases (g : Grammar) (sh : Shell) :
    (∀ sp, Spec.meaningAt sp g sh = Spec.meaning g sh) ∨ (∃ X, ∀ sp, Spec.meaningAt sp g sh = .alt X sp) := by
  unfold Spec.meaning Spec.meaningAt Spec.topOf
  cases hc : Spec.callBodies g with
  | nil =>
    right
    exact ⟨_, fun sp => by simp [ExprL.ofList, Spec.distr, Spec.distrAlt, Spec.expand, Spec.words, Spec.label]; rfl⟩
  | cons e rest =>
    cases rest with
    | nil => left; intro sp; rfl
    | cons e2 rest2 =>
      right
      exact ⟨_, fun sp => by simp [Spec.distr, Spec.expand, Spec.words, Spec.label]; rfl⟩

theorem names_meaningAt (sp : Span) (g : Grammar) (sh : Shell) :
    Spec.names (Spec.meaningAt sp g sh) = Spec.names (Spec.meaning g sh) := by
  rcases meaningAt_cases g sh with h | ⟨X, h⟩
  · rw [h]
  · have h2 : Spec.meaning g sh = Spec.meaningAt default g sh := rfl
    rw [h2, h sp, h default]
    simp [Spec.names]

/-! ### the undefined names -/

theorem insert_keys_sub {α} (m : AList α) (k : String) (v : α) (k' : String)
    (h : k' ∈ (m.insert k v).map (·.1)) : k' ∈ m.map (·.1) ∨ k' = k := by
  unfold AList.insert at h
  by_cases hc : m.contains k = true
  · simp only [hc, if_true] at h
    have hkeys : (m.map fun p => if p.1 == k then (k, v) else p).map (·.1) = m.map (·.1) := by
      rw [List.map_map]
      apply List.map_congr_left
      intro p _
      by_cases hp : p.1 = k
      · simp [hp]
      · simp [hp]
    rw [hkeys] at h
    exact .inl h
  · have hc' : m.contains k = false := by simpa using hc
    simp only [hc', Bool.false_eq_true, if_false, List.map_append, List.mem_append] at h
    rcases h with h | h
    · exact .inl h
    · right; simpa using h

mutual
theorem refsAcc_keys_sub : ∀ (e : Expr) (acc : AList Span) (k : String),
    k ∈ (refsAcc e acc).map (·.1) → k ∈ acc.map (·.1) ∨ k ∈ Spec.names e
  | .term .., acc, k, h => by left; simpa [refsAcc] using h
  | .cmd .., acc, k, h => by left; simpa [refsAcc] using h
  | .dd c d s, acc, k, h => by left; simpa [refsAcc] using h
  | .nonterm n l s, acc, k, h => by
    simp only [refsAcc] at h
    rcases insert_keys_sub acc n s k h with h | h
    · exact .inl h
    · right; simp [Spec.names, h]
  | .sub c l s, acc, k, h => by
    simp only [refsAcc] at h; simpa [Spec.names] using refsAcc_keys_sub c acc k h
  | .opt c s, acc, k, h => by
    simp only [refsAcc] at h; simpa [Spec.names] using refsAcc_keys_sub c acc k h
  | .many1 c s, acc, k, h => by
    simp only [refsAcc] at h; simpa [Spec.names] using refsAcc_keys_sub c acc k h
  | .seq cs s, acc, k, h => by
    simp only [refsAcc] at h; simpa [Spec.names] using refsAccL_keys_sub cs acc k h
  | .alt cs s, acc, k, h => by
    simp only [refsAcc] at h; simpa [Spec.names] using refsAccL_keys_sub cs acc k h
  | .fb cs s, acc, k, h => by
    simp only [refsAcc] at h; simpa [Spec.names] using refsAccL_keys_sub cs acc k h
theorem refsAccL_keys_sub : ∀ (es : ExprL) (acc : AList Span) (k : String),
    k ∈ (refsAccL es acc).map (·.1) → k ∈ acc.map (·.1) ∨ k ∈ Spec.namesL es
  | .nil, acc, k, h => by left; simpa [refsAccL] using h
  | .cons e es, acc, k, h => by
    simp only [refsAccL] at h
    simp only [Spec.namesL, List.mem_append]
    rcases refsAccL_keys_sub es _ k h with h | h
    · rcases refsAcc_keys_sub e acc k h with h | h
      · exact .inl h
      · exact .inr (.inl h)
    · exact .inr (.inr h)
end

mutual
theorem label_noDD : ∀ (e : Expr) (lvl : Nat), NoDD e = true → NoDD (Spec.label e lvl) = true
  | .term .., _, _ => by simp [Spec.label, NoDD]
  | .cmd .., _, _ => by simp [Spec.label, NoDD]
  | .nonterm .., _, _ => by simp [Spec.label, NoDD]
  | .dd .., _, h => by simp [NoDD] at h
  | .sub c l s, lvl, h => by simp only [Spec.label, NoDD] at h ⊢; exact label_noDD c lvl h
  | .opt c s, lvl, h => by simp only [Spec.label, NoDD] at h ⊢; exact label_noDD c lvl h
  | .many1 c s, lvl, h => by simp only [Spec.label, NoDD] at h ⊢; exact label_noDD c lvl h
  | .seq cs s, lvl, h => by simp only [Spec.label, NoDD] at h ⊢; exact labelL_noDD cs lvl h
  | .alt cs s, lvl, h => by simp only [Spec.label, NoDD] at h ⊢; exact labelL_noDD cs lvl h
  | .fb cs s, lvl, h => by simp only [Spec.label, NoDD] at h ⊢; exact labelFb_noDD cs 0 h
theorem labelL_noDD : ∀ (es : ExprL) (lvl : Nat), NoDDL es = true → NoDDL (Spec.labelL es lvl) = true
  | .nil, _, _ => by simp [Spec.labelL, NoDDL]
  | .cons e es, lvl, h => by
    simp only [NoDDL, Bool.and_eq_true] at h
    simp only [Spec.labelL, NoDDL, Bool.and_eq_true]
    exact ⟨label_noDD e lvl h.1, labelL_noDD es lvl h.2⟩
theorem labelFb_noDD : ∀ (es : ExprL) (i : Nat), NoDDL es = true → NoDDL (Spec.labelFb es i) = true
  | .nil, _, _ => by simp [Spec.labelFb, NoDDL]
  | .cons e es, i, h => by
    simp only [NoDDL, Bool.and_eq_true] at h
    simp only [Spec.labelFb, NoDDL, Bool.and_eq_true]
    exact ⟨label_noDD e i h.1, labelFb_noDD es (i + 1) h.2⟩
end

theorem meaningAt_noDD (sp : Span) (g : Grammar) (sh : Shell) : NoDD (Spec.meaningAt sp g sh) = true := by
  unfold Spec.meaningAt
  simp only
  apply label_noDD
  apply words_noDD
  apply (expand_noDD sh g _).1
  rw [← distr_eq_spec]
  exact distr_noDD _ none

theorem finishValidate_undefined (g : Grammar) (sh : Shell) (command : String) (defs0 : AList (Span × Expr))
    (specs : AList UserSpec) (fbs : AList String) (v : Valid)
    (h : finishValidate g sh command defs0 specs fbs = .ok v) : v.undefined = refs v.expr := by
  unfold finishValidate at h
  simp only at h
  split at h
  · cases h
  · split at h
    · cases h
    · cases h
    · simp only [Outcome.ok.injEq] at h
      subst h
      rfl

theorem validate_undefined (g : Grammar) (sh : Shell) (v : Valid) (h : validate g sh = .ok v) :
    v.undefined = refs v.expr := by
  unfold validate at h
  cases hcmd : commandOf g with
  | err c s => rw [hcmd] at h; cases h
  | crash s => rw [hcmd] at h; cases h
  | ok command =>
    rw [hcmd] at h
    simp only at h
    cases hcp : collectPlain (plainDefs g) [] with
    | err c s => rw [hcp] at h; cases h
    | crash s => rw [hcp] at h; cases h
    | ok defs0 =>
      rw [hcp] at h
      simp only at h
      cases hgs : getSpecializations g sh with
      | err c s => rw [hgs] at h; cases h
      | crash s => rw [hgs] at h; cases h
      | ok r =>
        rw [hgs] at h
        exact finishValidate_undefined g sh command defs0 r.1 r.2 v h

/-- **The names the model reports as undefined are exactly those of the specification** (`_`, the
deliberate "any word", is left out when the warnings are printed). -/
theorem validate_undefined_eq (g : Grammar) (sh : Shell) (v : Valid) (h : validate g sh = .ok v) (n : String) :
    (n ∈ v.undefined.map (·.1) ∧ n ≠ "_") ↔ n ∈ Spec.undefinedNames sh g := by
  rw [validate_undefined g sh v h, validate_expr_eq_meaning g sh v h]
  unfold Spec.undefinedNames
  rw [List.mem_eraseDups, List.mem_filter, ← names_meaningAt (topSpan g) g sh]
  have hiff : n ∈ (refs (Spec.meaningAt (topSpan g) g sh)).map (·.1) ↔ n ∈ Spec.names (Spec.meaningAt (topSpan g) g sh) := by
    constructor
    · intro hm
      rcases refsAcc_keys_sub _ [] n hm with h1 | h1
      · cases h1
      · exact h1
    · intro hm
      exact refsAcc_keys _ [] n (meaningAt_noDD _ g sh) (.inr hm)
  rw [hiff]
  simp

end Complgen.Check
