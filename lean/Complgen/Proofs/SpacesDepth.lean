/-
C06 / C08: the recursion depth of `check_subword_spaces` (`Check.spaces`), i.e. when the modelled exhaustion
of the native stack (`SpacesResult.overflow`, the only crash of the whole pipeline model) is impossible.

  1. `spaces_no_overflow`: against a table none of whose bodies refers to a name of the table (`ClosedTable`)
     the fuel `spacesDepthIn T e` suffices; `spaces_no_overflow'`: so does `spacesDepth e + tableDepth T`.
     The measure `spacesDepth` counts one unit per node on the way down *and one per list item passed*
     (that is how `spacesL` spends fuel), so it is not `Check.depth` (`flat6_overflow`).
  2. `expandedTable_closed`: after a successful `resolutionOrder` the expanded table is closed;
     `tableDepth_expanded_le`: its bodies are at most as deep as the sum of the depths of the definitions;
     `spacesVerdict_ne_overflow` (`_in`, `_of_defs`, `_of_size`): the verdict is not `.overflow` when
     `spacesDepth (topSpecialised g sh) + tableDepth (expandedTable g sh) ≤ stackFuel`, resp. when the depths
     of the statements sum to at most `stackFuel`, resp. when `2 * Σ size + 2 ≤ stackFuel`.
  3. `validate_no_crash_of_depth`, `Pipeline.compile_no_crash_of_depth` (and `_of_depthIn`, `_of_defs`,
     `_of_size`): no crash below the bound (no hypothesis on cycles: those are diagnosed, not crashes).
  4. `nested5_overflow`, `flat6_overflow`, `lookup_overflow`: `.overflow` does occur, the measures are exact
     there; `loop_overflow`: without `ClosedTable` no fuel suffices.
-/
import Complgen.Proofs.Verdict
import Complgen.Proofs.BuildTerm
namespace Complgen.Check
open Complgen

/-! ### 1. the measure -/

mutual
/-- the fuel `spaces` uses up on an expression, lookups not counted: one unit per node on the way down
**and one unit per list item passed** (`spacesL` hands the rest of a list on with the fuel decreased) -/
def spacesDepth : Expr → Nat
  | .seq cs _ | .alt cs _ | .fb cs _ => spacesDepthL cs + 1
  | .opt c _ | .many1 c _ | .sub c _ _ => spacesDepth c + 1
  | _ => 1
def spacesDepthL : ExprL → Nat
  | .nil => 1
  | .cons e es => max (spacesDepth e) (spacesDepthL es) + 1
end

mutual
/-- the references `spaces` comes across (it does not enter description nodes) -/
def walked : Expr → List String
  | .nonterm n _ _ => [n]
  | .seq cs _ | .alt cs _ | .fb cs _ => walkedL cs
  | .opt c _ | .many1 c _ | .sub c _ _ => walked c
  | _ => []
def walkedL : ExprL → List String
  | .nil => []
  | .cons e es => walked e ++ walkedL es
end

theorem adjacent_ne_overflow : ∀ (es : ExprL) (tr : List Span), adjacent es tr ≠ .overflow
  | .nil, tr => by simp [adjacent]
  | .cons a .nil, tr => by simp [adjacent]
  | .cons a (.cons b rest), tr => by
    have ih := adjacent_ne_overflow (.cons b rest) tr
    rw [adjacent]
    split
    · simp
    · exact ih

mutual
/-- on an expression none of whose references has a table entry the fuel `spacesDepth` suffices -/
theorem spaces_closed (T : AList (Span × Expr)) : ∀ (e : Expr) (fuel : Nat) (tr : List Span) (w : Bool),
    (∀ n ∈ walked e, T.get? n = none) → spacesDepth e ≤ fuel → spaces T fuel e tr w ≠ .overflow
  | .term .., fuel, tr, w, _, hf => by
    obtain ⟨f, rfl⟩ : ∃ f, fuel = f + 1 := ⟨fuel - 1, by simp [spacesDepth] at hf; omega⟩
    simp [spaces]
  | .cmd .., fuel, tr, w, _, hf => by
    obtain ⟨f, rfl⟩ : ∃ f, fuel = f + 1 := ⟨fuel - 1, by simp [spacesDepth] at hf; omega⟩
    simp [spaces]
  | .dd .., fuel, tr, w, _, hf => by
    obtain ⟨f, rfl⟩ : ∃ f, fuel = f + 1 := ⟨fuel - 1, by simp [spacesDepth] at hf; omega⟩
    simp [spaces]
  | .nonterm n l s, fuel, tr, w, hc, hf => by
    obtain ⟨f, rfl⟩ : ∃ f, fuel = f + 1 := ⟨fuel - 1, by simp [spacesDepth] at hf; omega⟩
    have := hc n (by simp [walked])
    simp [spaces, this]
  | .sub c l s, fuel, tr, w, hc, hf => by
    obtain ⟨f, rfl⟩ : ∃ f, fuel = f + 1 := ⟨fuel - 1, by simp [spacesDepth] at hf; omega⟩
    simp only [spaces]
    exact spaces_closed T c f tr true (by simpa [walked] using hc) (by simp [spacesDepth] at hf; omega)
  | .opt c s, fuel, tr, w, hc, hf => by
    obtain ⟨f, rfl⟩ : ∃ f, fuel = f + 1 := ⟨fuel - 1, by simp [spacesDepth] at hf; omega⟩
    simp only [spaces]
    exact spaces_closed T c f tr w (by simpa [walked] using hc) (by simp [spacesDepth] at hf; omega)
  | .many1 c s, fuel, tr, w, hc, hf => by
    obtain ⟨f, rfl⟩ : ∃ f, fuel = f + 1 := ⟨fuel - 1, by simp [spacesDepth] at hf; omega⟩
    simp only [spaces]
    exact spaces_closed T c f tr w (by simpa [walked] using hc) (by simp [spacesDepth] at hf; omega)
  | .alt cs s, fuel, tr, w, hc, hf => by
    obtain ⟨f, rfl⟩ : ∃ f, fuel = f + 1 := ⟨fuel - 1, by simp [spacesDepth] at hf; omega⟩
    simp only [spaces]
    exact spacesL_closed T cs f tr w (by simpa [walked] using hc) (by simp [spacesDepth] at hf; omega)
  | .fb cs s, fuel, tr, w, hc, hf => by
    obtain ⟨f, rfl⟩ : ∃ f, fuel = f + 1 := ⟨fuel - 1, by simp [spacesDepth] at hf; omega⟩
    simp only [spaces]
    exact spacesL_closed T cs f tr w (by simpa [walked] using hc) (by simp [spacesDepth] at hf; omega)
  | .seq cs s, fuel, tr, w, hc, hf => by
    obtain ⟨f, rfl⟩ : ∃ f, fuel = f + 1 := ⟨fuel - 1, by simp [spacesDepth] at hf; omega⟩
    have ih := spacesL_closed T cs f tr w (by simpa [walked] using hc) (by simp [spacesDepth] at hf; omega)
    simp only [spaces]
    cases hr : spacesL T f cs tr w with
    | overflow => exact absurd hr ih
    | bad l r t => simp
    | fine =>
      simp only
      split
      · exact adjacent_ne_overflow cs tr
      · simp
theorem spacesL_closed (T : AList (Span × Expr)) : ∀ (es : ExprL) (fuel : Nat) (tr : List Span) (w : Bool),
    (∀ n ∈ walkedL es, T.get? n = none) → spacesDepthL es ≤ fuel → spacesL T fuel es tr w ≠ .overflow
  | .nil, fuel, tr, w, _, hf => by
    obtain ⟨f, rfl⟩ : ∃ f, fuel = f + 1 := ⟨fuel - 1, by simp [spacesDepthL] at hf; omega⟩
    simp [spacesL]
  | .cons e es, fuel, tr, w, hc, hf => by
    obtain ⟨f, rfl⟩ : ∃ f, fuel = f + 1 := ⟨fuel - 1, by simp [spacesDepthL] at hf; omega⟩
    have h1 := spaces_closed T e f tr w (fun n hn => hc n (by simp [walkedL, hn])) (by simp [spacesDepthL] at hf; omega)
    have h2 := spacesL_closed T es f tr w (fun n hn => hc n (by simp [walkedL, hn])) (by simp [spacesDepthL] at hf; omega)
    simp only [spacesL]
    cases hr : spaces T f e tr w with
    | overflow => exact absurd hr h1
    | bad l r t => simp
    | fine => exact h2
end

/-! ### the measure with one level of lookups -/

mutual
/-- the fuel `spaces` uses up on an expression against a table whose bodies lead to no further lookup:
a reference with an entry costs one unit plus what the body costs -/
def spacesDepthIn (T : AList (Span × Expr)) : Expr → Nat
  | .nonterm n _ _ =>
    match T.get? n with
    | none => 1
    | some v => spacesDepth v.2 + 1
  | .seq cs _ | .alt cs _ | .fb cs _ => spacesDepthInL T cs + 1
  | .opt c _ | .many1 c _ | .sub c _ _ => spacesDepthIn T c + 1
  | _ => 1
def spacesDepthInL (T : AList (Span × Expr)) : ExprL → Nat
  | .nil => 1
  | .cons e es => max (spacesDepthIn T e) (spacesDepthInL T es) + 1
end

/-- lookups cannot loop: no body of the table leads `spaces` to a name that has an entry -/
def ClosedTable (T : AList (Span × Expr)) : Prop :=
  ∀ n sp b, T.get? n = some (sp, b) → ∀ m ∈ walked b, T.get? m = none

mutual
/-- **The recursion depth of `check_subword_spaces`**: against a table whose bodies refer to no name of the
table, `spaces` does not run out of fuel when it is given `spacesDepthIn T e`. -/
theorem spaces_no_overflow (T : AList (Span × Expr)) (hT : ClosedTable T) :
    ∀ (e : Expr) (fuel : Nat) (tr : List Span) (w : Bool),
      spacesDepthIn T e ≤ fuel → spaces T fuel e tr w ≠ .overflow
  | .term .., fuel, tr, w, hf => by
    obtain ⟨f, rfl⟩ : ∃ f, fuel = f + 1 := ⟨fuel - 1, by simp [spacesDepthIn] at hf; omega⟩
    simp [spaces]
  | .cmd .., fuel, tr, w, hf => by
    obtain ⟨f, rfl⟩ : ∃ f, fuel = f + 1 := ⟨fuel - 1, by simp [spacesDepthIn] at hf; omega⟩
    simp [spaces]
  | .dd .., fuel, tr, w, hf => by
    obtain ⟨f, rfl⟩ : ∃ f, fuel = f + 1 := ⟨fuel - 1, by simp [spacesDepthIn] at hf; omega⟩
    simp [spaces]
  | .nonterm n l s, fuel, tr, w, hf => by
    cases hg : T.get? n with
    | none =>
      obtain ⟨f, rfl⟩ : ∃ f, fuel = f + 1 := ⟨fuel - 1, by simp [spacesDepthIn, hg] at hf; omega⟩
      simp [spaces, hg]
    | some v =>
      obtain ⟨sp, b⟩ := v
      obtain ⟨f, rfl⟩ : ∃ f, fuel = f + 1 := ⟨fuel - 1, by simp [spacesDepthIn, hg] at hf; omega⟩
      simp only [spaces, hg]
      exact spaces_closed T b f (tr ++ [s]) w (hT n sp b hg) (by simp [spacesDepthIn, hg] at hf; omega)
  | .sub c l s, fuel, tr, w, hf => by
    obtain ⟨f, rfl⟩ : ∃ f, fuel = f + 1 := ⟨fuel - 1, by simp [spacesDepthIn] at hf; omega⟩
    simp only [spaces]
    exact spaces_no_overflow T hT c f tr true (by simp [spacesDepthIn] at hf; omega)
  | .opt c s, fuel, tr, w, hf => by
    obtain ⟨f, rfl⟩ : ∃ f, fuel = f + 1 := ⟨fuel - 1, by simp [spacesDepthIn] at hf; omega⟩
    simp only [spaces]
    exact spaces_no_overflow T hT c f tr w (by simp [spacesDepthIn] at hf; omega)
  | .many1 c s, fuel, tr, w, hf => by
    obtain ⟨f, rfl⟩ : ∃ f, fuel = f + 1 := ⟨fuel - 1, by simp [spacesDepthIn] at hf; omega⟩
    simp only [spaces]
    exact spaces_no_overflow T hT c f tr w (by simp [spacesDepthIn] at hf; omega)
  | .alt cs s, fuel, tr, w, hf => by
    obtain ⟨f, rfl⟩ : ∃ f, fuel = f + 1 := ⟨fuel - 1, by simp [spacesDepthIn] at hf; omega⟩
    simp only [spaces]
    exact spacesL_no_overflow T hT cs f tr w (by simp [spacesDepthIn] at hf; omega)
  | .fb cs s, fuel, tr, w, hf => by
    obtain ⟨f, rfl⟩ : ∃ f, fuel = f + 1 := ⟨fuel - 1, by simp [spacesDepthIn] at hf; omega⟩
    simp only [spaces]
    exact spacesL_no_overflow T hT cs f tr w (by simp [spacesDepthIn] at hf; omega)
  | .seq cs s, fuel, tr, w, hf => by
    obtain ⟨f, rfl⟩ : ∃ f, fuel = f + 1 := ⟨fuel - 1, by simp [spacesDepthIn] at hf; omega⟩
    have ih := spacesL_no_overflow T hT cs f tr w (by simp [spacesDepthIn] at hf; omega)
    simp only [spaces]
    cases hr : spacesL T f cs tr w with
    | overflow => exact absurd hr ih
    | bad l r t => simp
    | fine =>
      simp only
      split
      · exact adjacent_ne_overflow cs tr
      · simp
theorem spacesL_no_overflow (T : AList (Span × Expr)) (hT : ClosedTable T) :
    ∀ (es : ExprL) (fuel : Nat) (tr : List Span) (w : Bool),
      spacesDepthInL T es ≤ fuel → spacesL T fuel es tr w ≠ .overflow
  | .nil, fuel, tr, w, hf => by
    obtain ⟨f, rfl⟩ : ∃ f, fuel = f + 1 := ⟨fuel - 1, by simp [spacesDepthInL] at hf; omega⟩
    simp [spacesL]
  | .cons e es, fuel, tr, w, hf => by
    obtain ⟨f, rfl⟩ : ∃ f, fuel = f + 1 := ⟨fuel - 1, by simp [spacesDepthInL] at hf; omega⟩
    have h1 := spaces_no_overflow T hT e f tr w (by simp [spacesDepthInL] at hf; omega)
    have h2 := spacesL_no_overflow T hT es f tr w (by simp [spacesDepthInL] at hf; omega)
    simp only [spacesL]
    cases hr : spaces T f e tr w with
    | overflow => exact absurd hr h1
    | bad l r t => simp
    | fine => exact h2
end

/-! ### the cruder form: depth of the expression plus the largest depth of a body -/

/-- the depth of the body a name has in a table (0 without entry) -/
def bodyDepth (D : AList (Span × Expr)) (m : String) : Nat :=
  match D.get? m with
  | some v => spacesDepth v.2
  | none => 0

/-- the largest `spacesDepth` of a body of the table -/
def tableDepth (T : AList (Span × Expr)) : Nat := ((T.map (·.1)).map (bodyDepth T)).foldl max 0

theorem le_foldl_max : ∀ (l : List Nat) (a : Nat), a ≤ l.foldl max a ∧ ∀ x ∈ l, x ≤ l.foldl max a
  | [], a => ⟨Nat.le_refl _, fun _ h => by cases h⟩
  | y :: ys, a => by
    have ih := le_foldl_max ys (max a y)
    simp only [List.foldl_cons]
    refine ⟨by have := ih.1; omega, ?_⟩
    intro x hx
    rcases List.mem_cons.mp hx with rfl | hx
    · have := ih.1; omega
    · exact ih.2 x hx

theorem foldl_max_le (B : Nat) : ∀ (l : List Nat) (a : Nat), a ≤ B → (∀ x ∈ l, x ≤ B) → l.foldl max a ≤ B
  | [], a, ha, _ => ha
  | y :: ys, a, ha, h => by
    simp only [List.foldl_cons]
    apply foldl_max_le B ys
    · have := h y (by simp); omega
    · exact fun x hx => h x (List.mem_cons_of_mem _ hx)

theorem mem_of_get? {α} (m : AList α) (k : String) (v : α) (h : m.get? k = some v) : (k, v) ∈ m := by
  unfold AList.get? at h
  cases hf : m.find? (fun p => p.1 == k) with
  | none => rw [hf] at h; cases h
  | some p =>
    rw [hf] at h
    simp only [Option.map_some, Option.some.injEq] at h
    have h1 := List.mem_of_find?_eq_some hf
    have h2 : p.1 = k := by simpa using List.find?_some hf
    have : p = (k, v) := by rw [← h2, ← h]
    rw [← this]; exact h1

theorem le_tableDepth (T : AList (Span × Expr)) (n : String) (sp : Span) (b : Expr)
    (h : T.get? n = some (sp, b)) : spacesDepth b ≤ tableDepth T := by
  unfold tableDepth
  apply (le_foldl_max _ 0).2
  refine List.mem_map.mpr ⟨n, List.mem_map.mpr ⟨(n, (sp, b)), mem_of_get? T n (sp, b) h, rfl⟩, ?_⟩
  unfold bodyDepth
  rw [h]

theorem tableDepth_le (T : AList (Span × Expr)) (B : Nat)
    (h : ∀ n sp b, T.get? n = some (sp, b) → spacesDepth b ≤ B) : tableDepth T ≤ B := by
  unfold tableDepth
  apply foldl_max_le B _ 0 (Nat.zero_le _)
  intro x hx
  obtain ⟨n, _, rfl⟩ := List.mem_map.mp hx
  unfold bodyDepth
  cases hg : T.get? n with
  | none => exact Nat.zero_le _
  | some v => exact h n v.1 v.2 hg

mutual
theorem spacesDepthIn_le (T : AList (Span × Expr)) : ∀ e : Expr,
    spacesDepthIn T e ≤ spacesDepth e + tableDepth T
  | .term .. => by simp [spacesDepthIn, spacesDepth]
  | .cmd .. => by simp [spacesDepthIn, spacesDepth]
  | .dd .. => by simp [spacesDepthIn, spacesDepth]
  | .nonterm n l s => by
    cases hg : T.get? n with
    | none => simp [spacesDepthIn, spacesDepth, hg]
    | some v =>
      have := le_tableDepth T n v.1 v.2 hg
      simp only [spacesDepthIn, spacesDepth, hg]
      omega
  | .sub c l s => by have := spacesDepthIn_le T c; simp only [spacesDepthIn, spacesDepth]; omega
  | .opt c s => by have := spacesDepthIn_le T c; simp only [spacesDepthIn, spacesDepth]; omega
  | .many1 c s => by have := spacesDepthIn_le T c; simp only [spacesDepthIn, spacesDepth]; omega
  | .seq cs s => by have := spacesDepthInL_le T cs; simp only [spacesDepthIn, spacesDepth]; omega
  | .alt cs s => by have := spacesDepthInL_le T cs; simp only [spacesDepthIn, spacesDepth]; omega
  | .fb cs s => by have := spacesDepthInL_le T cs; simp only [spacesDepthIn, spacesDepth]; omega
theorem spacesDepthInL_le (T : AList (Span × Expr)) : ∀ es : ExprL,
    spacesDepthInL T es ≤ spacesDepthL es + tableDepth T
  | .nil => by simp [spacesDepthInL, spacesDepthL]
  | .cons e es => by
    have h1 := spacesDepthIn_le T e
    have h2 := spacesDepthInL_le T es
    simp only [spacesDepthInL, spacesDepthL]
    omega
end

/-- each lookup adds at most the depth of one body -/
theorem spaces_no_overflow' (T : AList (Span × Expr)) (hT : ClosedTable T) (e : Expr) (fuel : Nat)
    (tr : List Span) (w : Bool) (hf : spacesDepth e + tableDepth T ≤ fuel) : spaces T fuel e tr w ≠ .overflow :=
  spaces_no_overflow T hT e fuel tr w (Nat.le_trans (spacesDepthIn_le T e) hf)

/-! ### 2. the expanded table: no body refers to a name of the table; depths add up along the order -/

mutual
theorem walked_sub_names : ∀ (e : Expr) (n : String), n ∈ walked e → n ∈ Spec.names e
  | .term .., n, h => by simp [walked] at h
  | .cmd .., n, h => by simp [walked] at h
  | .dd .., n, h => by simp [walked] at h
  | .nonterm m l s, n, h => by simpa [walked, Spec.names] using h
  | .sub c l s, n, h => by simp only [walked, Spec.names] at h ⊢; exact walked_sub_names c n h
  | .opt c s, n, h => by simp only [walked, Spec.names] at h ⊢; exact walked_sub_names c n h
  | .many1 c s, n, h => by simp only [walked, Spec.names] at h ⊢; exact walked_sub_names c n h
  | .seq cs s, n, h => by simp only [walked, Spec.names] at h ⊢; exact walkedL_sub_names cs n h
  | .alt cs s, n, h => by simp only [walked, Spec.names] at h ⊢; exact walkedL_sub_names cs n h
  | .fb cs s, n, h => by simp only [walked, Spec.names] at h ⊢; exact walkedL_sub_names cs n h
theorem walkedL_sub_names : ∀ (es : ExprL) (n : String), n ∈ walkedL es → n ∈ Spec.namesL es
  | .nil, n, h => by simp [walkedL] at h
  | .cons e es, n, h => by
    simp only [walkedL, Spec.namesL, List.mem_append] at h ⊢
    rcases h with h | h
    · exact .inl (walked_sub_names e n h)
    · exact .inr (walkedL_sub_names es n h)
end

mutual
/-- what `spaces` comes across in a resolved expression: the references without entry, and what it comes
across in the bodies put in -/
theorem walked_resolve (acc : AList (Span × Expr)) (Q : String → Prop) : ∀ (e : Expr) (u : AList Span),
    (∀ n ∈ walked e, ∀ sp b, acc.get? n = some (sp, b) → ∀ k ∈ walked b, Q k) →
    (∀ n ∈ walked e, acc.get? n = none → Q n) → ∀ k ∈ walked (resolve acc e u).1, Q k
  | .term .., u, _, _, k, h => by simp [resolve, walked] at h
  | .cmd .., u, _, _, k, h => by simp [resolve, walked] at h
  | .dd .., u, _, _, k, h => by simp [resolve, walked] at h
  | .nonterm n l s, u, h1, h2, k, h => by
    cases hg : acc.get? n with
    | none =>
      simp only [resolve, hg, walked, List.mem_singleton] at h
      subst h
      exact h2 k (by simp [walked]) hg
    | some v =>
      obtain ⟨sp, b⟩ := v
      simp only [resolve, hg] at h
      exact h1 n (by simp [walked]) sp b hg k h
  | .sub c l s, u, h1, h2, k, h => by
    simp only [resolve, walked] at h h1 h2
    exact walked_resolve acc Q c u h1 h2 k h
  | .opt c s, u, h1, h2, k, h => by
    simp only [resolve, walked] at h h1 h2
    exact walked_resolve acc Q c u h1 h2 k h
  | .many1 c s, u, h1, h2, k, h => by
    simp only [resolve, walked] at h h1 h2
    exact walked_resolve acc Q c u h1 h2 k h
  | .seq cs s, u, h1, h2, k, h => by
    simp only [resolve, walked] at h h1 h2
    exact walkedL_resolve acc Q cs u h1 h2 k h
  | .alt cs s, u, h1, h2, k, h => by
    simp only [resolve, walked] at h h1 h2
    exact walkedL_resolve acc Q cs u h1 h2 k h
  | .fb cs s, u, h1, h2, k, h => by
    simp only [resolve, walked] at h h1 h2
    exact walkedL_resolve acc Q cs u h1 h2 k h
theorem walkedL_resolve (acc : AList (Span × Expr)) (Q : String → Prop) : ∀ (es : ExprL) (u : AList Span),
    (∀ n ∈ walkedL es, ∀ sp b, acc.get? n = some (sp, b) → ∀ k ∈ walked b, Q k) →
    (∀ n ∈ walkedL es, acc.get? n = none → Q n) → ∀ k ∈ walkedL (resolveL acc es u).1, Q k
  | .nil, u, _, _, k, h => by simp [resolveL, walkedL] at h
  | .cons e es, u, h1, h2, k, h => by
    simp only [resolveL, walkedL, List.mem_append] at h
    rcases h with h | h
    · exact walked_resolve acc Q e u (fun n hn => h1 n (by simp [walkedL, hn]))
        (fun n hn => h2 n (by simp [walkedL, hn])) k h
    · exact walkedL_resolve acc Q es _ (fun n hn => h1 n (by simp [walkedL, hn]))
        (fun n hn => h2 n (by simp [walkedL, hn])) k h
end

mutual
/-- putting bodies of depth at most `B` in place of references adds at most `B` -/
theorem spacesDepth_resolve (acc : AList (Span × Expr)) (B : Nat) : ∀ (e : Expr) (u : AList Span),
    (∀ n ∈ walked e, ∀ sp b, acc.get? n = some (sp, b) → spacesDepth b ≤ B) →
    spacesDepth (resolve acc e u).1 ≤ spacesDepth e + B
  | .term .., u, _ => by simp [resolve, spacesDepth]
  | .cmd .., u, _ => by simp [resolve, spacesDepth]
  | .dd .., u, _ => by simp [resolve, spacesDepth]
  | .nonterm n l s, u, h1 => by
    cases hg : acc.get? n with
    | none => simp [resolve, hg, spacesDepth]
    | some v =>
      obtain ⟨sp, b⟩ := v
      have := h1 n (by simp [walked]) sp b hg
      simp only [resolve, hg, spacesDepth]
      omega
  | .sub c l s, u, h1 => by
    simp only [walked] at h1
    have := spacesDepth_resolve acc B c u h1
    simp only [resolve, spacesDepth]; omega
  | .opt c s, u, h1 => by
    simp only [walked] at h1
    have := spacesDepth_resolve acc B c u h1
    simp only [resolve, spacesDepth]; omega
  | .many1 c s, u, h1 => by
    simp only [walked] at h1
    have := spacesDepth_resolve acc B c u h1
    simp only [resolve, spacesDepth]; omega
  | .seq cs s, u, h1 => by
    simp only [walked] at h1
    have := spacesDepthL_resolve acc B cs u h1
    simp only [resolve, spacesDepth]; omega
  | .alt cs s, u, h1 => by
    simp only [walked] at h1
    have := spacesDepthL_resolve acc B cs u h1
    simp only [resolve, spacesDepth]; omega
  | .fb cs s, u, h1 => by
    simp only [walked] at h1
    have := spacesDepthL_resolve acc B cs u h1
    simp only [resolve, spacesDepth]; omega
theorem spacesDepthL_resolve (acc : AList (Span × Expr)) (B : Nat) : ∀ (es : ExprL) (u : AList Span),
    (∀ n ∈ walkedL es, ∀ sp b, acc.get? n = some (sp, b) → spacesDepth b ≤ B) →
    spacesDepthL (resolveL acc es u).1 ≤ spacesDepthL es + B
  | .nil, u, _ => by simp [resolveL, spacesDepthL]
  | .cons e es, u, h1 => by
    have a1 := spacesDepth_resolve acc B e u (fun n hn => h1 n (by simp [walkedL, hn]))
    have a2 := spacesDepthL_resolve acc B es (resolve acc e u).2 (fun n hn => h1 n (by simp [walkedL, hn]))
    simp only [resolveL, spacesDepthL]
    omega
end

def sumDepth (D : AList (Span × Expr)) (P : List String) : Nat := (P.map (bodyDepth D)).sum

theorem sumDepth_cons (D : AList (Span × Expr)) (n : String) (P : List String) :
    sumDepth D (n :: P) = bodyDepth D n + sumDepth D P := by
  simp [sumDepth]

theorem le_sumDepth (D : AList (Span × Expr)) (m : String) : ∀ P : List String, m ∈ P → bodyDepth D m ≤ sumDepth D P
  | [], h => by simp at h
  | p :: P, h => by
    rw [sumDepth_cons]
    rcases List.mem_cons.mp h with rfl | h
    · omega
    · have := le_sumDepth D m P h; omega

theorem contains_of_get?_isSome {α} (m : AList α) (k : String) (h : (m.get? k).isSome = true) :
    m.contains k = true := by
  cases hc : m.contains k with
  | true => rfl
  | false => rw [contains_false_get? m k hc] at h; cases h

/-- what the expansion loop maintains besides `LoopInv`: the bodies of the names processed lead `spaces` to
no name of the table, and their depth is at most the sum of the depths of the definitions processed -/
structure DepthInv (D : AList (Span × Expr)) (P : List String) (acc : AList (Span × Expr)) : Prop where
  keys : ∀ k, (acc.get? k).isSome = (D.get? k).isSome
  rest : ∀ m, m ∉ P → acc.get? m = D.get? m
  good : ∀ m ∈ P, ∀ sp b, acc.get? m = some (sp, b) →
    (∀ k ∈ walked b, D.get? k = none) ∧ spacesDepth b ≤ sumDepth D P

theorem depthInv_step (D : AList (Span × Expr)) (P : List String) (acc : AList (Span × Expr)) (u : AList Span)
    (n : String) (inv : DepthInv D P acc) (hn : n ∉ P) (hkey : (D.get? n).isSome = true)
    (hdeps : ∀ m ∈ depNames D n, m ∈ P) : DepthInv D (n :: P) (resStep (acc, u) n).1 := by
  cases hD : D.get? n with
  | none => rw [hD] at hkey; cases hkey
  | some v =>
    obtain ⟨s, e⟩ := v
    have hacc : acc.get? n = some (s, e) := by rw [inv.rest n hn, hD]
    have hdep : ∀ m ∈ walked e, ∀ sp b, acc.get? m = some (sp, b) → m ∈ P := by
      intro m hm sp b hg
      apply hdeps
      unfold depNames
      rw [hD]
      refine List.mem_filter.mpr ⟨walked_sub_names e m hm, ?_⟩
      apply contains_of_get?_isSome
      rw [← inv.keys m, hg]; rfl
    unfold resStep
    simp only [hacc]
    refine ⟨?_, ?_, ?_⟩
    · intro k
      rw [get?_map_replace, ← inv.keys k]
      by_cases hk : k = n
      · subst hk; simp [hacc]
      · simp [hk]
    · intro m hm
      have hmn : m ≠ n := fun e => hm (by simp [e])
      have hmP : m ∉ P := fun e => hm (List.mem_cons_of_mem _ e)
      rw [get?_map_replace]
      simp only [hmn, if_false]
      exact inv.rest m hmP
    · intro m hm sp b hg
      rw [get?_map_replace] at hg
      by_cases hmn : m = n
      · subst hmn
        simp only [if_true, hacc, Option.map_some, Option.some.injEq, Prod.mk.injEq] at hg
        obtain ⟨_, rfl⟩ := hg
        refine ⟨?_, ?_⟩
        · apply walked_resolve acc (fun k => D.get? k = none) e u
          · intro m' hm' sp' b' hg'
            exact (inv.good m' (hdep m' hm' sp' b' hg') sp' b' hg').1
          · intro m' _ hg'
            have := inv.keys m'
            rw [hg'] at this
            cases hd : D.get? m' with
            | none => rfl
            | some x => rw [hd] at this; cases this
        · have := spacesDepth_resolve acc (sumDepth D P) e u (by
            intro m' hm' sp' b' hg'
            exact (inv.good m' (hdep m' hm' sp' b' hg') sp' b' hg').2)
          rw [sumDepth_cons]
          unfold bodyDepth
          rw [hD]
          exact this
      · simp only [hmn, if_false] at hg
        have hmP : m ∈ P := by
          rcases List.mem_cons.mp hm with h | h
          · exact absurd h hmn
          · exact h
        have := inv.good m hmP sp b hg
        refine ⟨this.1, ?_⟩
        rw [sumDepth_cons]
        omega

theorem depthInv_fold (D : AList (Span × Expr)) :
    ∀ (order P : List String) (acc : AList (Span × Expr)) (u : AList Span), DepthInv D P acc →
      Sched D P order → DepthInv D (order.reverse ++ P) (order.foldl resStep (acc, u)).1
  | [], P, acc, u, inv, _ => by simpa using inv
  | n :: rest, P, acc, u, inv, hs => by
    obtain ⟨hn, hkey, hdeps, hs'⟩ := hs
    have h1 := depthInv_step D P acc u n inv hn hkey hdeps
    have h2 := depthInv_fold D rest (n :: P) (resStep (acc, u) n).1 (resStep (acc, u) n).2 h1 hs'
    simp only [List.foldl_cons, List.reverse_cons, List.append_assoc, List.singleton_append]
    exact h2

theorem depthInv_init (D : AList (Span × Expr)) (P0 : List String) (hclosed : ∀ m ∈ P0, depNames D m = []) :
    DepthInv D P0 D := by
  refine ⟨fun _ => rfl, fun _ _ => rfl, ?_⟩
  intro m hm sp b hg
  refine ⟨?_, ?_⟩
  · intro k hk
    have hcl := hclosed m hm
    unfold depNames at hcl
    rw [hg] at hcl
    simp only at hcl
    cases hc : D.contains k with
    | false => exact contains_false_get? D k hc
    | true =>
      have : k ∈ (Spec.names b).filter fun m => D.contains m :=
        List.mem_filter.mpr ⟨walked_sub_names b k hk, hc⟩
      rw [hcl] at this; cases this
  · have := le_sumDepth D m P0 hm
    unfold bodyDepth at this
    rw [hg] at this
    exact this

/-! ### the sum of the depths over distinct names is at most the sum over the table -/

theorem bodyDepth_cons_ne (x : String × Span × Expr) (L : AList (Span × Expr)) (m : String) (h : x.1 ≠ m) :
    bodyDepth (x :: L) m = bodyDepth L m := by
  have : (x.1 == m) = false := by simpa using h
  simp [bodyDepth, AList.get?, this]

theorem bodyDepth_cons_eq (x : String × Span × Expr) (L : AList (Span × Expr)) (m : String) (h : x.1 = m) :
    bodyDepth (x :: L) m = spacesDepth x.2.2 := by
  have : (x.1 == m) = true := by simpa using h
  simp [bodyDepth, AList.get?, this]

theorem sumDepth_step (x : String × Span × Expr) (L : AList (Span × Expr)) :
    ∀ P : List String, P.Nodup →
      sumDepth (x :: L) P ≤ spacesDepth x.2.2 + sumDepth L (P.filter (· != x.1))
  | [], _ => by simp [sumDepth]
  | m :: Q, hnd => by
    have hQ := (List.nodup_cons.mp hnd).2
    have hm := (List.nodup_cons.mp hnd).1
    by_cases h : x.1 = m
    · have hall : ∀ q ∈ Q, x.1 ≠ q := fun q hq e => hm (by rw [← h, e]; exact hq)
      have h1 : (Q.map (bodyDepth (x :: L))) = Q.map (bodyDepth L) :=
        List.map_congr_left fun q hq => bodyDepth_cons_ne x L q (hall q hq)
      have h2 : Q.filter (· != x.1) = Q := by
        apply List.filter_eq_self.mpr
        intro q hq
        have := hall q hq
        simpa using (Ne.symm this)
      have h3 := bodyDepth_cons_eq x L m h
      have h4 : (m != x.1) = false := by simp [h]
      simp only [sumDepth, List.map_cons, List.sum_cons, List.filter_cons, h4, Bool.false_eq_true, if_false, h1, h2, h3]
      omega
    · have ih := sumDepth_step x L Q hQ
      have h4 : (m != x.1) = true := by simpa using (Ne.symm h)
      simp only [sumDepth, List.map_cons, List.sum_cons, List.filter_cons, h4, if_true,
        bodyDepth_cons_ne x L m h] at ih ⊢
      omega

theorem sumDepth_le : ∀ (L : AList (Span × Expr)) (P : List String), P.Nodup →
    sumDepth L P ≤ (L.map fun x => spacesDepth x.2.2).sum
  | [], P, _ => by
    have : ∀ Q : List String, sumDepth [] Q = 0 := by
      intro Q
      induction Q with
      | nil => rfl
      | cons q Q ih =>
        rw [sumDepth_cons, ih]
        simp [bodyDepth, AList.get?]
    rw [this]; simp
  | x :: L, P, hnd => by
    have h1 := sumDepth_step x L P hnd
    have h2 := sumDepth_le L (P.filter (· != x.1)) (hnd.filter _)
    simp only [List.map_cons, List.sum_cons]
    omega

/-! ### the table validation checks against -/

/-- after a successful traversal the expanded table satisfies the invariant for a list of names that
contains every name of the table (once, when no name is defined twice) -/
theorem expandedTable_inv (g : Grammar) (sh : Shell) (order : List String)
    (hro : resolutionOrder (tableOf sh g) = .ok order) :
    DepthInv (tableOf sh g) (order.reverse ++ closedKeys (tableOf sh g)) (expandedTable g sh) ∧
    (∀ m, (tableOf sh g).contains m = true → m ∈ order.reverse ++ closedKeys (tableOf sh g)) ∧
    (((plainDefs g).map (·.1)).Nodup → (order.reverse ++ closedKeys (tableOf sh g)).Nodup) := by
  obtain ⟨R, hord, hRnd, hRcl, hRall⟩ := resolutionOrder_ok (tableOf sh g) order hro
  have hsched := sched_of_closed sh g R [] (by simpa using hRnd) (by simpa using hRcl)
  simp only [List.filter_nil, List.reverse_nil, List.nil_append] at hsched
  have hord' : order = R.filter (hasDeps (tableOf sh g)) := hord
  rw [← hord'] at hsched
  have hinit := depthInv_init (tableOf sh g) (closedKeys (tableOf sh g)) (by
    intro m hm
    have hnd : hasDeps (tableOf sh g) m = false := by
      have := (List.mem_filter.mp hm).2
      simpa using this
    cases hdn : depNames (tableOf sh g) m with
    | nil => rfl
    | cons a as =>
      have : a ∈ kids (depGraph (tableOf sh g)) m := depNames_sub_kids sh g m a (by rw [hdn]; simp)
      rw [kids_of_not_hasDeps _ m hnd] at this
      cases this)
  have hinv := depthInv_fold (tableOf sh g) order (closedKeys (tableOf sh g)) (tableOf sh g) [] hinit hsched
  refine ⟨?_, ?_, ?_⟩
  · unfold expandedTable
    rw [hro]
    exact hinv
  · intro m hm
    have hkey := mem_keys_of_contains _ m hm
    have hR : m ∈ R := hRall m (by rw [verts_depGraph]; exact hkey)
    by_cases hmd : hasDeps (tableOf sh g) m = true
    · exact List.mem_append_left _ (List.mem_reverse.mpr (by rw [hord']; exact List.mem_filter.mpr ⟨hR, hmd⟩))
    · exact List.mem_append_right _ (List.mem_filter.mpr ⟨hkey, by simpa using hmd⟩)
  · intro hnodup
    apply List.nodup_append.mpr
    refine ⟨?_, ?_, ?_⟩
    · rw [hord']; exact (List.reverse_perm _).nodup_iff.mpr (hRnd.filter _)
    · unfold closedKeys; rw [tableOf_keys]; exact hnodup.filter _
    · intro a ha b hb e
      subst e
      have h1 : hasDeps (tableOf sh g) a = true := by
        rw [hord'] at ha
        exact (List.mem_filter.mp (List.mem_reverse.mp ha)).2
      have h2 := (List.mem_filter.mp hb).2
      simp [h1] at h2

/-- an entry of the expanded table belongs to a name the loop has dealt with -/
theorem expandedTable_entry (g : Grammar) (sh : Shell) (order : List String)
    (hro : resolutionOrder (tableOf sh g) = .ok order) (n : String) (sp : Span) (b : Expr)
    (hg : (expandedTable g sh).get? n = some (sp, b)) :
    (∀ k ∈ walked b, (tableOf sh g).get? k = none) ∧
      spacesDepth b ≤ sumDepth (tableOf sh g) (order.reverse ++ closedKeys (tableOf sh g)) := by
  obtain ⟨inv, hall, _⟩ := expandedTable_inv g sh order hro
  have hk := inv.keys n
  rw [hg] at hk
  exact inv.good n (hall n (contains_of_get?_isSome _ n hk.symm)) sp b hg

/-- **After the dependency-ordered expansion no body of the table refers to a name of the table.** -/
theorem expandedTable_closed (g : Grammar) (sh : Shell) (order : List String)
    (hro : resolutionOrder (tableOf sh g) = .ok order) : ClosedTable (expandedTable g sh) := by
  obtain ⟨inv, _, _⟩ := expandedTable_inv g sh order hro
  intro n sp b hg k hk
  have h1 := (expandedTable_entry g sh order hro n sp b hg).1 k hk
  have h2 := inv.keys k
  rw [h1] at h2
  cases hd : (expandedTable g sh).get? k with
  | none => rfl
  | some x => rw [hd] at h2; cases h2

/-- **The depths add up along a chain of definitions**: an expanded body is at most as deep as the sum of the
depths of the (specialised) definitions. -/
theorem tableDepth_expanded_le (g : Grammar) (sh : Shell) (order : List String)
    (hro : resolutionOrder (tableOf sh g) = .ok order) (hnodup : ((plainDefs g).map (·.1)).Nodup) :
    tableDepth (expandedTable g sh) ≤ ((tableOf sh g).map fun x => spacesDepth x.2.2).sum := by
  obtain ⟨_, _, hPnd⟩ := expandedTable_inv g sh order hro
  apply tableDepth_le
  intro n sp b hg
  exact Nat.le_trans (expandedTable_entry g sh order hro n sp b hg).2 (sumDepth_le _ _ (hPnd hnodup))

/-! ### 2'. the bound in terms of the statements of the grammar -/

mutual
theorem spacesDepth_applyPick (sh : Shell) (g : Grammar) : ∀ e : Expr,
    spacesDepth (applyPick sh g e) = spacesDepth e
  | .term .. => by simp [applyPick, spacesDepth]
  | .cmd .. => by simp [applyPick, spacesDepth]
  | .dd .. => by simp [applyPick, spacesDepth]
  | .nonterm n l s => by
    unfold applyPick
    cases Spec.pick sh g n <;> simp [spacesDepth]
  | .sub c l s => by simp [applyPick, spacesDepth, spacesDepth_applyPick sh g c]
  | .opt c s => by simp [applyPick, spacesDepth, spacesDepth_applyPick sh g c]
  | .many1 c s => by simp [applyPick, spacesDepth, spacesDepth_applyPick sh g c]
  | .seq cs s => by simp [applyPick, spacesDepth, spacesDepthL_applyPick sh g cs]
  | .alt cs s => by simp [applyPick, spacesDepth, spacesDepthL_applyPick sh g cs]
  | .fb cs s => by simp [applyPick, spacesDepth, spacesDepthL_applyPick sh g cs]
theorem spacesDepthL_applyPick (sh : Shell) (g : Grammar) : ∀ es : ExprL,
    spacesDepthL (applyPickL sh g es) = spacesDepthL es
  | .nil => by simp [applyPickL, spacesDepthL]
  | .cons e es => by
    simp [applyPickL, spacesDepthL, spacesDepth_applyPick sh g e, spacesDepthL_applyPick sh g es]
end

theorem size_pos : ∀ e : Expr, 1 ≤ Spec.size e
  | .term .. => by simp [Spec.size]
  | .cmd .. => by simp [Spec.size]
  | .nonterm .. => by simp [Spec.size]
  | .dd .. => by simp [Spec.size]
  | .sub .. => by simp [Spec.size]
  | .opt .. => by simp [Spec.size]
  | .many1 .. => by simp [Spec.size]
  | .seq .. => by simp [Spec.size]
  | .alt .. => by simp [Spec.size]
  | .fb .. => by simp [Spec.size]

mutual
theorem spacesDepth_le_size : ∀ e : Expr, spacesDepth e ≤ 2 * Spec.size e
  | .term .. => by simp [spacesDepth, Spec.size]
  | .cmd .. => by simp [spacesDepth, Spec.size]
  | .nonterm .. => by simp [spacesDepth, Spec.size]
  | .dd c d s => by simp only [spacesDepth, Spec.size]; omega
  | .sub c l s => by have := spacesDepth_le_size c; simp only [spacesDepth, Spec.size]; omega
  | .opt c s => by have := spacesDepth_le_size c; simp only [spacesDepth, Spec.size]; omega
  | .many1 c s => by have := spacesDepth_le_size c; simp only [spacesDepth, Spec.size]; omega
  | .seq cs s => by have := spacesDepthL_le_size cs; simp only [spacesDepth, Spec.size]; omega
  | .alt cs s => by have := spacesDepthL_le_size cs; simp only [spacesDepth, Spec.size]; omega
  | .fb cs s => by have := spacesDepthL_le_size cs; simp only [spacesDepth, Spec.size]; omega
theorem spacesDepthL_le_size : ∀ es : ExprL, spacesDepthL es ≤ 2 * Spec.sizeL es + 1
  | .nil => by simp [spacesDepthL, Spec.sizeL]
  | .cons e es => by
    have h0 := size_pos e
    have h1 := spacesDepth_le_size e
    have h2 := spacesDepthL_le_size es
    simp only [spacesDepthL, Spec.sizeL]
    omega
end

theorem spacesDepth_distribute (e : Expr) : spacesDepth (distribute e) ≤ 2 * Spec.size e := by
  have h1 := spacesDepth_le_size (distribute e)
  have h2 : Spec.size (distribute e) ≤ Spec.size e := size_distr e none
  omega

theorem sum_map_le {α} (f h : α → Nat) : ∀ l : List α, (∀ x ∈ l, f x ≤ h x) → (l.map f).sum ≤ (l.map h).sum
  | [], _ => by simp
  | x :: xs, hl => by
    have h1 := hl x (by simp)
    have h2 := sum_map_le f h xs (fun y hy => hl y (List.mem_cons_of_mem _ hy))
    simp only [List.map_cons, List.sum_cons]
    omega

/-- the sum of the depths of the specialised definitions, read off the grammar -/
theorem tableOf_depths (g : Grammar) (sh : Shell) :
    ((tableOf sh g).map fun x => spacesDepth x.2.2).sum =
      ((plainDefs g).map fun x => spacesDepth (distribute x.2.2)).sum := by
  unfold tableOf
  simp [List.map_map, Function.comp_def, spacesDepth_applyPick]

theorem topSpecialised_depth (g : Grammar) (sh : Shell) :
    spacesDepth (topSpecialised g sh) = spacesDepth (distribute (topExpr g)) :=
  spacesDepth_applyPick sh g _

/-- everything is bounded by the total size of the statements -/
theorem depths_le_size (g : Grammar) (sh : Shell) :
    spacesDepth (topSpecialised g sh) + ((tableOf sh g).map fun x => spacesDepth x.2.2).sum ≤
      2 * (g.map stmtSize).sum + 2 := by
  rw [topSpecialised_depth, tableOf_depths]
  have h1 := spacesDepth_distribute (topExpr g)
  have h2 := size_topExpr g
  have h3 := total_bound g
  have h4 := sum_map_le (fun x : String × Span × Expr => spacesDepth (distribute x.2.2))
    (fun x => 2 * Spec.size x.2.2) (plainDefs g) (fun x _ => spacesDepth_distribute x.2.2)
  omega

/-! ### 2. the verdict of the check of spaces is never "stack exhausted" below the bound -/

/-- the sharpest form: one level of lookups into the expanded table -/
theorem spacesVerdict_ne_overflow_in (g : Grammar) (sh : Shell) (order : List String)
    (hro : resolutionOrder (tableOf sh g) = .ok order)
    (h : spacesDepthIn (expandedTable g sh) (topSpecialised g sh) ≤ stackFuel) :
    spacesVerdict g sh ≠ .overflow :=
  spaces_no_overflow _ (expandedTable_closed g sh order hro) _ _ _ _ h

/-- **When the definitions do not refer to each other in a circle, `check_subword_spaces` does not exhaust
the (modelled) stack** if the depth of the specialised top expression plus the largest depth of an expanded
definition is at most `stackFuel` (no further constant: the units are those of `spacesDepth`). -/
theorem spacesVerdict_ne_overflow (g : Grammar) (sh : Shell) (order : List String)
    (hro : resolutionOrder (tableOf sh g) = .ok order)
    (h : spacesDepth (topSpecialised g sh) + tableDepth (expandedTable g sh) ≤ stackFuel) :
    spacesVerdict g sh ≠ .overflow :=
  spaces_no_overflow' _ (expandedTable_closed g sh order hro) _ _ _ _ h

/-- … in terms of the definitions as written: the depth of the top expression plus the sum of the depths of
the definitions (descriptions distributed) -/
theorem spacesVerdict_ne_overflow_of_defs (g : Grammar) (sh : Shell) (order : List String)
    (hro : resolutionOrder (tableOf sh g) = .ok order) (hnodup : ((plainDefs g).map (·.1)).Nodup)
    (h : spacesDepth (distribute (topExpr g)) +
      ((plainDefs g).map fun x => spacesDepth (distribute x.2.2)).sum ≤ stackFuel) :
    spacesVerdict g sh ≠ .overflow := by
  apply spacesVerdict_ne_overflow g sh order hro
  have := tableDepth_expanded_le g sh order hro hnodup
  rw [tableOf_depths] at this
  rw [topSpecialised_depth]
  omega

/-- … in terms of the total size of the statements -/
theorem spacesVerdict_ne_overflow_of_size (g : Grammar) (sh : Shell) (order : List String)
    (hro : resolutionOrder (tableOf sh g) = .ok order) (hnodup : ((plainDefs g).map (·.1)).Nodup)
    (h : 2 * (g.map stmtSize).sum + 2 ≤ stackFuel) :
    spacesVerdict g sh ≠ .overflow := by
  apply spacesVerdict_ne_overflow g sh order hro
  have h1 := tableDepth_expanded_le g sh order hro hnodup
  have h2 := depths_le_size g sh
  omega

/-! ### 3. no crash -/

/-- what a crash of validation presupposes -/
theorem crash_presupposes (g : Grammar) (sh : Shell) (site : String) (h : validate g sh = .crash site) :
    (∃ order, resolutionOrder (tableOf sh g) = .ok order) ∧ ((plainDefs g).map (·.1)).Nodup ∧
      spacesVerdict g sh = .overflow := by
  cases validate_cases g sh
  all_goals try (rename_i hv; rw [hv] at h; cases h; done)
  case spacesOverflow n w hcyc hsp hv =>
    exact ⟨resolutionOrder_ok_of_acyclic g sh hcyc, w.plain, hsp⟩

/-- **Validation does not crash on grammars whose nesting stays below the modelled stack.** -/
theorem validate_no_crash_of_depth (g : Grammar) (sh : Shell)
    (h : spacesDepth (topSpecialised g sh) + tableDepth (expandedTable g sh) ≤ stackFuel) :
    ∀ site, validate g sh ≠ .crash site := by
  intro site hc
  obtain ⟨⟨order, hro⟩, _, hsp⟩ := crash_presupposes g sh site hc
  exact spacesVerdict_ne_overflow g sh order hro h hsp

theorem validate_no_crash_of_depthIn (g : Grammar) (sh : Shell)
    (h : spacesDepthIn (expandedTable g sh) (topSpecialised g sh) ≤ stackFuel) :
    ∀ site, validate g sh ≠ .crash site := by
  intro site hc
  obtain ⟨⟨order, hro⟩, _, hsp⟩ := crash_presupposes g sh site hc
  exact spacesVerdict_ne_overflow_in g sh order hro h hsp

theorem validate_no_crash_of_defs (g : Grammar) (sh : Shell)
    (h : spacesDepth (distribute (topExpr g)) +
      ((plainDefs g).map fun x => spacesDepth (distribute x.2.2)).sum ≤ stackFuel) :
    ∀ site, validate g sh ≠ .crash site := by
  intro site hc
  obtain ⟨⟨order, hro⟩, hnd, hsp⟩ := crash_presupposes g sh site hc
  exact spacesVerdict_ne_overflow_of_defs g sh order hro hnd h hsp

/-- a grammar whose statements have at most 9999 nodes in total does not crash validation -/
theorem validate_no_crash_of_size (g : Grammar) (sh : Shell) (h : (g.map stmtSize).sum ≤ 9999) :
    ∀ site, validate g sh ≠ .crash site := by
  intro site hc
  obtain ⟨⟨order, hro⟩, hnd, hsp⟩ := crash_presupposes g sh site hc
  exact spacesVerdict_ne_overflow_of_size g sh order hro hnd (by unfold stackFuel; omega) hsp

/-! ### 4. the bound is not vacuous: `.overflow` does occur -/

/-- a literal under five `[...]` -/
def nested5 : Expr :=
  .opt (.opt (.opt (.opt (.opt (.term "a" none 0 default) default) default) default) default) default

theorem nested5_depth : spacesDepth nested5 = 6 := by decide

/-- with fuel 3 (and still with 5) the walk over an expression nested five deep runs out of fuel; 6, the
value of `spacesDepth`, is the least fuel that suffices -/
theorem nested5_overflow :
    spaces [] 3 nested5 [] false = .overflow ∧ spaces [] 5 nested5 [] false = .overflow ∧
    spaces [] 6 nested5 [] false = .fine := ⟨rfl, rfl, rfl⟩

/-- six literals side by side: `a | b | c | d | e | f` -/
def flat6 : Expr :=
  .alt (.cons (.term "a" none 0 default) (.cons (.term "b" none 0 default) (.cons (.term "c" none 0 default)
    (.cons (.term "d" none 0 default) (.cons (.term "e" none 0 default) (.cons (.term "f" none 0 default) .nil))))))
    default

/-- **The model's walk pays for width as well as for nesting**: `spacesL` passes the rest of a list on with the
fuel decreased, so six alternatives side by side (`Check.depth` 3) need fuel 8.  Hence the bounds above are
stated in `spacesDepth`, not in `Check.depth`. -/
theorem flat6_overflow :
    depth flat6 = 3 ∧ spacesDepth flat6 = 8 ∧
    spaces [] 7 flat6 [] false = .overflow ∧ spaces [] 8 flat6 [] false = .fine :=
  ⟨by decide, by decide, rfl, rfl⟩

/-- `<X> ::= [[a]];` -/
def tableX : AList (Span × Expr) :=
  [("X", (default, .opt (.opt (.term "a" none 0 default) default) default))]

/-- a lookup costs one unit plus the body: `<X>` against `tableX` needs `spacesDepthIn = 4` -/
theorem lookup_overflow :
    spacesDepthIn tableX (.nonterm "X" 0 default) = 4 ∧
    spaces tableX 3 (.nonterm "X" 0 default) [] false = .overflow ∧
    spaces tableX 4 (.nonterm "X" 0 default) [] false = .fine :=
  ⟨by decide, rfl, rfl⟩

/-- `<X> ::= <X>;` -/
def tableLoop : AList (Span × Expr) := [("X", (default, .nonterm "X" 0 default))]

/-- **The hypothesis `ClosedTable` is needed**: against a table whose body refers to its own name no fuel
suffices (this is the "unbounded recursion through cyclic definitions" the crash message speaks of; validation
never gets there, because it reports the cycle first). -/
theorem loop_overflow : ∀ (fuel : Nat) (tr : List Span) (w : Bool),
    spaces tableLoop fuel (.nonterm "X" 0 default) tr w = .overflow
  | 0, _, _ => by simp [spaces]
  | fuel + 1, tr, w => by
    have hg : tableLoop.get? "X" = some (default, .nonterm "X" 0 default) := rfl
    simp only [spaces, hg]
    exact loop_overflow fuel _ w

theorem tableLoop_not_closed : ¬ ClosedTable tableLoop := by
  intro h
  have hg : tableLoop.get? "X" = some (default, .nonterm "X" 0 default) := rfl
  have := h "X" default (.nonterm "X" 0 default) hg "X" (by simp [walked])
  rw [hg] at this
  cases this

end Complgen.Check

namespace Complgen
namespace Pipeline
open Complgen.Check

/-- a crash of the pipeline model is a crash of validation (the proof of `compile_crash_only_stack`, which
concludes what the message is, read for where it comes from) -/
theorem compile_crash_validate (σ : Schedule) (g : Grammar) (sh : Shell) (s : String)
    (h : compile σ g sh = .crash s) : validate g sh = .crash s := by
  unfold compile at h
  split at h
  · cases h
  · rename_i s' hv
    cases h
    exact hv
  · rename_i v hv
    split at h
    rename_i regex pool hre
    have hreg : regex = (Regex.ofExpr v.expr []).1 := by rw [hre]
    have hpool : pool = (Regex.ofExpr v.expr []).2 := by rw [hre]
    split at h
    · cases h
    · split at h
      · cases h
      · rename_i s' hs
        rw [hreg, hpool] at hs
        exact absurd hs (symbolsOf_ofExpr_no_crash σ v.expr s')
      · rename_i syms subs hs
        split at h
        · rename_i hraw
          have := buildAuto_ofExpr_isSome σ v.expr [] (fun p => syms[p]?)
          rw [← hreg, hraw] at this
          cases this
        · rename_i raw hraw
          split at h
          · rename_i hmin
            have := Min.minimize_isSome σ raw (buildAuto_WF σ regex _ raw hraw)
            rw [hmin] at this
            cases this
          · split at h
            · exact absurd h (ambToOutcome_ne_crash _ _)
            · cases h

/-- **The model of the whole pipeline never crashes on grammars whose nesting stays below the modelled
stack.** -/
theorem compile_no_crash_of_depth (g : Grammar) (sh : Shell)
    (h : spacesDepth (topSpecialised g sh) + tableDepth (expandedTable g sh) ≤ stackFuel) :
    ∀ σ site, compile σ g sh ≠ .crash site :=
  fun σ site hc => validate_no_crash_of_depth g sh h site (compile_crash_validate σ g sh site hc)

theorem compile_no_crash_of_depthIn (g : Grammar) (sh : Shell)
    (h : spacesDepthIn (expandedTable g sh) (topSpecialised g sh) ≤ stackFuel) :
    ∀ σ site, compile σ g sh ≠ .crash site :=
  fun σ site hc => validate_no_crash_of_depthIn g sh h site (compile_crash_validate σ g sh site hc)

theorem compile_no_crash_of_defs (g : Grammar) (sh : Shell)
    (h : spacesDepth (distribute (topExpr g)) +
      ((plainDefs g).map fun x => spacesDepth (distribute x.2.2)).sum ≤ stackFuel) :
    ∀ σ site, compile σ g sh ≠ .crash site :=
  fun σ site hc => validate_no_crash_of_defs g sh h site (compile_crash_validate σ g sh site hc)

/-- a grammar whose statements have at most 9999 nodes in total is compiled (or rejected with a
diagnostic) without a crash, for every schedule -/
theorem compile_no_crash_of_size (g : Grammar) (sh : Shell) (h : (g.map stmtSize).sum ≤ 9999) :
    ∀ σ site, compile σ g sh ≠ .crash site :=
  fun σ site hc => validate_no_crash_of_size g sh h site (compile_crash_validate σ g sh site hc)

/-- the hypotheses can be evaluated: e.g. the three-statement grammar of `Proofs/Verdict.lean` -/
theorem shadowExample_no_crash : ∀ σ site, compile σ shadowExample .bash ≠ .crash site :=
  compile_no_crash_of_size shadowExample .bash (by decide)

end Pipeline
end Complgen
