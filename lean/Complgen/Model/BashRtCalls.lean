/-
The model of the bash template (`Model/BashRt.lean`) with the calls of the external-command
functions recorded: which `_<cmd>_cmd_N` is run, in which order, with which two arguments.  The
four call sites of the template:
  * inside a word, while matching:   `_cmd_cmd_N "$subword" "$matched_prefix"`   (rest of the word, part already read)
  * inside a word, while completing: `_cmd_cmd_N "$completed_prefix" "$matched_prefix"`
  * between words, while reading an earlier word: `_cmd_cmd_N "" ""`
  * between words, while completing: `_cmd_cmd_N "$prefix" ""`
`Proofs/Calls.lean`: the results are those of the functions without recording, and every recorded
call has one of these four forms.
-/
import Complgen.Model.BashRt
namespace Complgen.BashRt

/-- (command function id, first argument, second argument) -/
abbrev Call := Nat × String × String

def cmdPassL (out : Nat → List String) (sub : List Char) (matched : String) : List (Nat × Nat) → Step × List Call
  | [] => (.nothing, [])
  | (cmd, to) :: rest =>
    let call : Call := (cmd, String.ofList sub, matched)
    let cands := byDecreasingLength ((out cmd).filter (· ≠ ""))
    match candPass to sub cands with
    | .nothing => let r := cmdPassL out sub matched rest; (r.1, call :: r.2)
    | r => (r, [call])

def subLoopL (T : Tables) (out : Nat → List String) (mode : Mode) (word : List Char) :
    Nat → Nat → Nat → (Nat × Nat × Bool) × List Call
  | 0, q, i => ((q, i, false), [])
  | fuel + 1, q, i =>
    if i ≥ word.length then ((q, i, true), []) else
    let sub := word.drop i
    let s1 := match rowOf T.litTrans q with
      | some row => litPass mode T.literals row sub 0 T.literals
      | none => .nothing
    match s1 with
    | .consumed q' n => if n = 0 then ((q, i, false), []) else subLoopL T out mode word fuel q' (i + n)
    | .stop => ((q, i, false), [])
    | .nothing =>
      let s2 := match rowOf T.cmdTrans q with
        | some row => cmdPassL out sub (String.ofList (word.take i)) row
        | none => (.nothing, [])
      match s2.1 with
      | .consumed q' n =>
        if n = 0 then ((q, i, false), s2.2)
        else let r := subLoopL T out mode word fuel q' (i + n); (r.1, s2.2 ++ r.2)
      | .stop => ((q, i, false), s2.2)
      | .nothing =>
        if (T.star.find? (·.1 == q)).isSome then ((q, i, true), s2.2) else ((q, i, false), s2.2)

def subMatchesL (T : Tables) (out : Nat → List String) (word : String) : Bool × List Call :=
  let r := subLoopL T out .matchesMode word.toList (word.length + 1) 0 0
  (r.1.2.2, r.2)

def subCompleteL (T : Tables) (out : Nat → List String) (word : String) : List String × List Call :=
  let w := word.toList
  let r := subLoopL T out .complete w (w.length + 1) 0 0
  let q := r.1.1
  let i := r.1.2.1
  let matched := String.ofList (w.take i)
  let completed := w.drop i
  let rec levels : Nat → Nat → List String → List String × List Call
    | 0, _, _ => ([], [])
    | fuel + 1, lvl, cands =>
      let cands := cands ++ (idsAt T.litLevels lvl q).map fun id => matched ++ (T.literals[id]?.getD "")
      let m1 := cands.filter fun c => isPrefix w c.toList
      let cmds := idsAt T.cmdLevels lvl q
      let m2 := cmds.flatMap fun cmd =>
        ((out cmd).filter fun o => isPrefix completed o.toList).map fun o => matched ++ o
      let calls : List Call := cmds.map fun cmd => (cmd, String.ofList completed, matched)
      if !(m1 ++ m2).isEmpty then (m1 ++ m2, calls)
      else if lvl ≥ T.maxLevel then ([], calls)
      else let r := levels fuel (lvl + 1) cands; (r.1, calls ++ r.2)
  let l := levels (T.maxLevel + 1) 0 []
  (l.1, r.2 ++ l.2)

/-- the within-word functions tried in turn for one complete word -/
def trySubs (S : Script) (word : String) : List (Nat × Nat) → Option Nat × List Call
  | [] => (none, [])
  | (id, to) :: rest =>
    let r := subMatchesL (S.sub id) S.out word
    if r.1 then (some to, r.2) else let r2 := trySubs S word rest; (r2.1, r.2 ++ r2.2)

/-- the commands tried in turn for one complete word -/
def tryCmds (S : Script) (word : String) : List (Nat × Nat) → Option Nat × List Call
  | [] => (none, [])
  | (cmd, to) :: rest =>
    if (S.out cmd).contains word then (some to, [(cmd, "", "")])
    else let r := tryCmds S word rest; (r.1, (cmd, "", "") :: r.2)

def readWordL (S : Script) (q : Nat) (word : String) : (Option Nat × Bool) × List Call :=
  let T := S.main
  let lit : Option Nat := match rowOf T.litTrans q with
    | some row => ((List.range T.literals.length).findSome? fun id =>
        if T.literals[id]? == some word then toOf row id else none)
    | none => none
  match lit with
  | some q' => ((some q', false), [])
  | none =>
    let sw := match rowOf T.subTrans q with
      | some row => trySubs S word row
      | none => (none, [])
    match sw.1 with
    | some q' => ((some q', false), sw.2)
    | none =>
      let cmdRow := (rowOf T.cmdTrans q).getD []
      let seen := cmdRow.any fun (cmd, _) => !((S.out cmd).filter (· ≠ "")).isEmpty
      let cm := tryCmds S word cmdRow
      match cm.1 with
      | some q' => ((some q', seen), sw.2 ++ cm.2)
      | none =>
        match T.star.find? (·.1 == q) with
        | some (_, q') => ((some q', seen), sw.2 ++ cm.2)
        | none => ((none, seen), sw.2 ++ cm.2)

def walkL (S : Script) : Nat → List String → Walk × List Call
  | q, [] => (.state q, [])
  | q, w :: ws =>
    let r := readWordL S q w
    match r.1 with
    | (some q', _) => let r2 := walkL S q' ws; (r2.1, r.2 ++ r2.2)
    | (none, seen) => (if seen && ws.isEmpty then .state q else .unmatched, r.2)

def subCompletes (S : Script) (prefix_ : String) : List Nat → List String × List Call
  | [] => ([], [])
  | id :: rest =>
    let r := subCompleteL (S.sub id) S.out prefix_
    let r2 := subCompletes S prefix_ rest
    (r.1 ++ r2.1, r.2 ++ r2.2)

def offerL (S : Script) (q : Nat) (prefix_ : String) : List String × List Call :=
  let T := S.main
  let p := prefix_.toList
  let rec levels : Nat → Nat → List String → List String × List Call
    | 0, _, _ => ([], [])
    | fuel + 1, lvl, cands =>
      let cands := cands ++ (idsAt T.litLevels lvl q).map fun id => (T.literals[id]?.getD "") ++ " "
      let m1 := cands.filter fun c => isPrefix p c.toList
      let sc := subCompletes S prefix_ (idsAt T.subLevels lvl q)
      let cmds := idsAt T.cmdLevels lvl q
      let m3 := cmds.flatMap fun cmd => (S.out cmd).filter fun o => isPrefix p o.toList
      let calls : List Call := sc.2 ++ cmds.map fun cmd => (cmd, prefix_, "")
      let cands' := match cmds.getLast? with
        | some cmd => S.out cmd
        | none => cands
      if !(m1 ++ sc.1 ++ m3).isEmpty then (m1 ++ sc.1 ++ m3, calls)
      else if lvl ≥ T.maxLevel then ([], calls)
      else let r := levels fuel (lvl + 1) cands'; (r.1, calls ++ r.2)
  levels (T.maxLevel + 1) 0 []

/-- `_<cmd>` with the calls it makes, in order -/
def completeL (S : Script) (start : Nat) (words : List String) (prefix_ wb : String) :
    Option (List String) × List Call :=
  let w := walkL S start words
  match w.1 with
  | .unmatched => (none, w.2)
  | .state q =>
    let o := offerL S q prefix_
    let pre := superfluous prefix_.toList wb.toList
    (some (o.1.map fun m => String.ofList (stripPrefix pre m.toList)), w.2 ++ o.2)

end Complgen.BashRt
