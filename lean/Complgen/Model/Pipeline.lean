/-
Model of the compilation pipeline of main.rs::aot after parsing:
validate ▸ regex ▸ check_ambiguities ▸ DFA (sub-automata built, minimised, checked, interned)
▸ minimise ▸ check_ambiguity_best_effort.
-/
import Complgen.Model.Check
import Complgen.Model.Min
namespace Complgen.Pipeline
open Complgen Complgen.Check

/-! ### regex.rs `check_ambiguities` (a placeholder inside a word must be last) -/

def isStarInput : RxInput → Bool
  | .nonterm .. => true
  | _ => false

/-- `do_check_ambiguous_inputs_tail_only_subword` -/
def tailOnly (r : Regex) : Nat → List Nat → Option RxInput → List Nat →
    Except (Span × Span) (List Nat)
  | 0, _, _, visited => .ok visited
  | fuel + 1, set, pathPrev, visited =>
    let inputs := (set.filter (· != r.endPos)).filterMap (r.inputs[·]?)
    match pathPrev, inputs with
    | some prev, inp :: _ => .error (prev.span, inp.span)
    | _, _ =>
      let prevAmb := (inputs.filter isStarInput).getLast?
      let pass := match pathPrev with | some p => some p | none => prevAmb
      let rec go : List Nat → List Nat → Except (Span × Span) (List Nat)
        | [], visited => .ok visited
        | p :: rest, visited =>
          if visited.contains p then go rest visited else
          let f := normSet (r.follow p)
          if f.isEmpty then go rest visited else
          match tailOnly r fuel f pass (p :: visited) with
          | .error e => .error e
          | .ok visited => go rest visited
      go set visited

def checkSubwordRegex (r : Regex) : Except (Span × Span) Unit :=
  match tailOnly r (r.inputs.length + 2) (normSet r.first) none [r.endPos] with
  | .error e => .error e
  | .ok _ => .ok ()

/-- `check_subwords`: walks the positions of the main regex reachable through followpos and checks
each within-word regex once -/
def checkSubwords (r : Regex) (pool : RxPool) : Nat → List Nat → List Nat × List Nat →
    Except (Span × Span) (List Nat × List Nat)
  | 0, _, st => .ok st
  | fuel + 1, set, (visited, checked) =>
    let rids := (set.filter (· != r.endPos)).filterMap fun p =>
      match (r.inputs[p]? : Option RxInput) with
      | some (RxInput.sub rid _ _) => some rid
      | _ => none
    let rec chk : List Nat → List Nat → Except (Span × Span) (List Nat)
      | [], checked => .ok checked
      | rid :: rest, checked =>
        if checked.contains rid then chk rest checked else
        match pool[rid]? with
        | none => chk rest checked
        | some sr =>
          match checkSubwordRegex sr with
          | .error e => .error e
          | .ok _ => chk rest (rid :: checked)
    match chk rids checked with
    | .error e => .error e
    | .ok checked =>
      let rec go : List Nat → List Nat × List Nat → Except (Span × Span) (List Nat × List Nat)
        | [], st => .ok st
        | p :: rest, (visited, checked) =>
          if visited.contains p then go rest (visited, checked) else
          let f := normSet (r.follow p)
          if f.isEmpty then go rest (visited, checked) else
          match checkSubwords r pool fuel f (p :: visited, checked) with
          | .error e => .error e
          | .ok st => go rest st
      go set (visited, checked)

def checkAmbiguities (r : Regex) (pool : RxPool) : Except (Span × Span) Unit :=
  match checkSubwords r pool (r.inputs.length + 2) (normSet r.first) ([r.endPos], []) with
  | .error e => .error e
  | .ok _ => .ok ()

/-! ### dfa.rs `check_ambiguity_best_effort` -/

inductive AmbErr where
  | ambiguous
  | conflicting (lit : String) (l r : Option String)

def sortByLit (l : List (String × Option String)) : List (String × Option String) :=
  -- stable insertion sort by literal text
  l.foldl (fun acc x =>
    let (before, after) := acc.span (fun y => y.1 ≤ x.1)
    before ++ [x] ++ after) []

def conflictIn : List (String × Option String) → Option AmbErr
  | (l1, d1) :: (l2, d2) :: rest =>
    if l1 == l2 && d1 != d2 then some (.conflicting l1 d1 d2) else conflictIn ((l2, d2) :: rest)
  | _ => none

def dedupAdj : List (String × Option String) → List (String × Option String)
  | a :: b :: rest => if a == b then dedupAdj (b :: rest) else a :: dedupAdj (b :: rest)
  | l => l

def stateCheck (a : Auto) (q : Nat) : Option AmbErr :=
  let outs := a.transFrom q
  let stars := outs.filter fun (i, _) => a.inputs[i]? == some .star
  if stars.length ≥ 2 && stars.any (fun (_, to) => !a.acc.contains to) then some .ambiguous else
  let lits := outs.filterMap fun (i, _) =>
    match a.inputs[i]? with
    | some (.lit t d _) => some (t, d)
    | _ => none
  conflictIn (dedupAdj (sortByLit lits))

def ambDfs (a : Auto) : Nat → Nat → List Nat → Except AmbErr (List Nat)
  | 0, _, visited => .ok visited
  | fuel + 1, q, visited =>
    match stateCheck a q with
    | some e => .error e
    | none =>
      let rec go : List (Nat × Nat) → List Nat → Except AmbErr (List Nat)
        | [], visited => .ok visited
        | (_, to) :: rest, visited =>
          if visited.contains to then go rest visited else
          match ambDfs a fuel to (to :: visited) with
          | .error e => .error e
          | .ok visited => go rest visited
      go (a.transFrom q) visited

def checkAmbiguityBestEffort (a : Auto) : Option AmbErr :=
  match ambDfs a (a.states.length + 2) a.start [] with
  | .error e => some e
  | .ok _ => none

/-! ### the pipeline -/

structure Compiled where
  valid : Valid
  regex : Regex
  pool : RxPool
  raw : Dfa
  min : Dfa

def ambToOutcome {α} : AmbErr → Outcome α
  | .ambiguous => .err .ambiguousDFA []
  | .conflicting .. => .err .conflictingDescriptions []

/-- `Inp::from_input` over all positions: builds, minimises, checks and interns the within-word
automata. Returns the symbol of every position and the pool. -/
def symbolsOf (σ : Schedule) (pool : RxPool) (ins : List RxInput) :
    Outcome (List Inp × List Auto) :=
  let rec go : List RxInput → List Inp → List Auto → List (Nat × Nat) → Outcome (List Inp × List Auto)
    | [], acc, subs, _ => .ok (acc, subs)
    | .lit t d l _ :: rest, acc, subs, cache => go rest (acc ++ [.lit t d l]) subs cache
    | .nonterm .. :: rest, acc, subs, cache => go rest (acc ++ [.star]) subs cache
    | .cmd c a l _ :: rest, acc, subs, cache =>
      go rest (acc ++ [if a then .compadd c l else .cmd c l]) subs cache
    | .sub rid l _ :: rest, acc, subs, cache =>
      match cache.find? (·.1 == rid) with
      | some (_, k) => go rest (acc ++ [.sub k l]) subs cache
      | none =>
        match pool[rid]? with
        | none => .crash "RegexInternPool::lookup"
        | some sr =>
          -- within a word there are no nested sub-automata (subwords are flattened)
          let symOf : Nat → Option Inp := fun p =>
            match (sr.inputs[p]? : Option RxInput) with
            | some (RxInput.lit t d l _) => some (Inp.lit t d l)
            | some (RxInput.nonterm ..) => some Inp.star
            | some (RxInput.cmd c a l _) => some (if a then Inp.compadd c l else Inp.cmd c l)
            | _ => none
          match buildAuto σ sr symOf with
          | none => .crash "dfa_from_regex: out of fuel"
          | some raw =>
            match checkAmbiguityBestEffort raw with
            | some e => ambToOutcome e
            | none =>
            match Min.minimize σ raw with
            | none => .crash "do_minimize: out of fuel"
            | some m =>
              match checkAmbiguityBestEffort m with
              | some e => ambToOutcome e
              | none =>
                let (subs, k) :=
                  match subs.findIdx? (·.same m) with
                  | some k => (subs, k)
                  | none => (subs ++ [m], subs.length)
                go rest (acc ++ [.sub k l]) subs ((rid, k) :: cache)
  go ins [] [] []

def compile (σ : Schedule) (g : Grammar) (sh : Shell) : Outcome Compiled :=
  match validate g sh with
  | .err c s => .err c s
  | .crash s => .crash s
  | .ok v =>
    let (regex, pool) := Regex.ofExpr v.expr []
    match checkAmbiguities regex pool with
    | .error (a, b) => .err .unboundedMatchable [a, b]
    | .ok _ =>
    match symbolsOf σ pool regex.inputs with
    | .err c s => .err c s
    | .crash s => .crash s
    | .ok (syms, subs) =>
      match buildAuto σ regex (fun p => syms[p]?) with
      | none => .crash "dfa_from_regex: out of fuel"
      | some raw =>
        match Min.minimize σ raw with
        | none => .crash "do_minimize: out of fuel"
        | some m =>
          match checkAmbiguityBestEffort m with
          | some e => ambToOutcome e
          | none => .ok { valid := v, regex, pool, raw := ⟨raw, subs⟩, min := ⟨m, subs⟩ }

end Complgen.Pipeline
