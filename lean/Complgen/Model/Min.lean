/-
Model of dfa.rs `do_minimize` (Hopcroft with an implicit dead state 0), followed by the three
clean-up passes and `renumber_states`.  The `HashSet` work-list / partition iteration orders are
a schedule parameter.
-/
import Complgen.Model.Dfa
namespace Complgen.Min
open Complgen

abbrev Block := List Nat   -- sorted, duplicate-free

def inter (a b : Block) : Block := a.filter (b.contains ·)
def diff (a b : Block) : Block := a.filter (!b.contains ·)

/-- completed transition function: a missing transition leads to the dead state 0 -/
def stepC (a : Auto) (q i : Nat) : Nat := if q == 0 then 0 else (a.step q i).getD 0

/-- all states of the completed automaton: `get_all_states` (incl. the dead state) -/
def allStates (a : Auto) : Block := normSet (0 :: a.states)

/-- states with a transition on `i` into the block `g` (`transitions_to_group[i]`); only states
that occur as a `from` in `dfa.transitions` have rows in the transition image -/
def preimage (a : Auto) (froms : Block) (g : Block) (i : Nat) : Block :=
  froms.filter fun q => g.contains (stepC a q i)

structure HState where
  parts : List Block
  work : List Block

/-- split every block of the partition that `x` cuts; maintain the work-list as the code does -/
def splitAll (x : Block) : List Block → HState → HState
  | [], st => st
  | y :: rest, st =>
    -- `y` may have been replaced meanwhile; the code iterates over a snapshot of overlapping sets
    if !st.parts.contains y then splitAll x rest st else
    let y1 := inter y x
    let y2 := diff y y1
    if y1.isEmpty || y2.isEmpty then splitAll x rest st else
    let parts := (st.parts.filter (· != y)) ++ [y1, y2]
    let work :=
      if st.work.contains y then (st.work.filter (· != y)) ++ [y1, y2]
      else if y1.length ≤ y2.length then st.work ++ [y1] else st.work ++ [y2]
    splitAll x rest { parts, work }

def refineLoop (σ : Schedule) (a : Auto) (froms : Block) (nInputs : Nat) :
    Nat → Nat → HState → Option HState
  | 0, _, st => if st.work.isEmpty then some st else none
  | fuel + 1, step, st =>
    if st.work.isEmpty then some st else
    let k := σ step st.work.length % st.work.length
    match st.work[k]? with
    | none => none
    | some g =>
      let st := { st with work := removeNth st.work k }
      let st := (List.range nInputs).foldl (init := st) fun st i =>
        let x := preimage a froms g i
        if x.isEmpty then st else
        splitAll x (st.parts.filter fun y => !(inter y x).isEmpty) st
      refineLoop σ a froms nInputs fuel (step + 1) st

/-- the partition `do_minimize` ends with (blocks of the completed automaton) -/
def partition (σ : Schedule) (a : Auto) : Option (List Block) :=
  let all := allStates a
  let accB := normSet a.acc
  let nonacc := diff (diff all accB) [0]
  let init := ([[0], accB, nonacc] : List Block).filter (!·.isEmpty)
  let froms := normSet (a.trans.map (·.1))
  let n := all.length
  (refineLoop σ a froms a.inputs.length (2 * n * n + 2) 0 { parts := init, work := init }).map (·.parts)

def repOf (parts : List Block) (q : Nat) : Nat :=
  match parts.find? (·.contains q) with
  | some (r :: _) => r     -- blocks are sorted: the head is the minimum
  | _ => q

def renumber (start : Nat) (trans : List (Nat × Nat × Nat)) (acc : List Nat) :
    Nat × List (Nat × Nat × Nat) × List Nat :=
  let order := dedup (start :: trans.flatMap (fun t => [t.1, t.2.2]))
  let new := fun q => (order.idxOf? q).getD 0
  (new start, trans.map (fun t => (new t.1, t.2.1, new t.2.2)), normSet (acc.map new))

/-- `do_minimize` -/
def minimize (σ : Schedule) (a : Auto) : Option Auto :=
  match partition σ a with
  | none => none
  | some parts =>
    let rep := repOf parts
    let start := rep a.start
    let acc := normSet (a.acc.map rep)
    let trans := a.trans.map fun t => (t.1, t.2.1, rep t.2.2)
    -- keep_only_states_with_input_transitions
    let targets := normSet (trans.map (·.2.2))
    let acc := acc.filter fun q => q == start || targets.contains q
    let trans := trans.filter fun t => t.1 == start || (targets.contains t.1 && targets.contains t.2.2)
    -- eliminate_nonaccepting_states_without_output_transitions
    let sources := normSet (trans.map (·.1))
    let trans := trans.filter fun t => acc.contains t.2.2 || sources.contains t.2.2
    let (start, trans, acc) := renumber start trans acc
    some { start, trans, acc, inputs := a.inputs }

end Complgen.Min
