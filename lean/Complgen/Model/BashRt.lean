/-
Model of the run-time algorithm of the emitted bash script (the template text in bash.rs):
`_<cmd>_subword` (the one-pass within-word matcher / completer), the top-level word walk with the
priority literal > within-word > command > any word, the fallback-level loop, the prefix filter
`__complgen_match`, and the COMP_WORDBREAKS stripping.  It runs on the *tables* of a script (the
data lines, decoded) and on the fixed output of each command function.

Where bash iterates over the keys of an associative array (`"${!state_commands[@]}"`,
`"${!state_transitions[@]}"`) the model takes the order of the table lines; the explored cases are
compared with the real bash, and the theorems of `Props/C12.lean` concern states with literal
transitions only, where no such order occurs.
-/
namespace Complgen.BashRt

abbrev Row := Nat × List (Nat × Nat)          -- state ↦ [(id, to)]
abbrev LevelRow := Nat × List Nat             -- state ↦ [id]

structure Tables where
  literals : List String
  litTrans : List Row := []
  cmdTrans : List Row := []
  star : List (Nat × Nat) := []
  subTrans : List Row := []
  litLevels : List (List LevelRow) := []
  cmdLevels : List (List LevelRow) := []
  subLevels : List (List LevelRow) := []
  maxLevel : Nat := 0
deriving Repr, Inhabited

def rowOf (t : List Row) (q : Nat) : Option (List (Nat × Nat)) := (t.find? (·.1 == q)).map (·.2)
def toOf (r : List (Nat × Nat)) (id : Nat) : Option Nat := (r.find? (·.1 == id)).map (·.2)
def idsAt (t : List (List LevelRow)) (lvl q : Nat) : List Nat :=
  match t[lvl]? with
  | some rows => ((rows.find? (·.1 == q)).map (·.2)).getD []
  | none => []

def isPrefix (p s : List Char) : Bool := p.isPrefixOf s

/-- insertion sort: longer first, ties by text descending (`sort -nrk2,2 -rk3`) -/
def byDecreasingLength (l : List String) : List String :=
  l.foldl (fun acc x =>
    let before := acc.takeWhile fun y => y.length > x.length || (y.length == x.length && y ≥ x)
    before ++ [x] ++ acc.drop before.length) []

inductive Mode where
  | matchesMode
  | complete
deriving DecidableEq, Repr

inductive Step where
  | consumed (state : Nat) (len : Nat)
  | stop                   -- typed text is a prefix of a candidate: completion starts here
  | nothing
deriving Repr, DecidableEq

/-- the pass over *all* literals of the within-word automaton, in table order -/
def litPass (mode : Mode) (lits : List String) (row : List (Nat × Nat)) (sub : List Char) : Nat → List String → Step
  | _, [] => .nothing
  | id, lit :: rest =>
    let l := lit.toList
    if sub == l && (toOf row id).isSome then .consumed ((toOf row id).getD 0) l.length
    else if mode != .matchesMode && (toOf row id).isSome && isPrefix sub l then .stop
    else if isPrefix l sub && (toOf row id).isSome then .consumed ((toOf row id).getD 0) l.length
    else litPass mode lits row sub (id + 1) rest

/-- the pass over the candidates of one command, longest first -/
def candPass (to : Nat) (sub : List Char) : List String → Step
  | [] => .nothing
  | c :: rest =>
    let l := c.toList
    if l == sub then .consumed to l.length
    else if isPrefix sub l then .stop
    else if isPrefix l sub then .consumed to l.length
    else candPass to sub rest

def cmdPass (out : Nat → List String) (sub : List Char) : List (Nat × Nat) → Step
  | [] => .nothing
  | (cmd, to) :: rest =>
    let cands := byDecreasingLength ((out cmd).filter (· ≠ ""))
    match candPass to sub cands with
    | .nothing => cmdPass out sub rest
    | r => r

/-- `_<cmd>_subword`'s matching loop: returns (state, chars consumed, matched) -/
def subLoop (T : Tables) (out : Nat → List String) (mode : Mode) (word : List Char) :
    Nat → Nat → Nat → Nat × Nat × Bool
  | 0, q, i => (q, i, false)
  | fuel + 1, q, i =>
    if i ≥ word.length then (q, i, true) else
    let sub := word.drop i
    let s1 := match rowOf T.litTrans q with
      | some row => litPass mode T.literals row sub 0 T.literals
      | none => .nothing
    match s1 with
    | .consumed q' n => if n = 0 then (q, i, false) else subLoop T out mode word fuel q' (i + n)
    | .stop => (q, i, false)
    | .nothing =>
      let s2 := match rowOf T.cmdTrans q with
        | some row => cmdPass out sub row
        | none => .nothing
      match s2 with
      | .consumed q' n => if n = 0 then (q, i, false) else subLoop T out mode word fuel q' (i + n)
      | .stop => (q, i, false)
      | .nothing =>
        if (T.star.find? (·.1 == q)).isSome then (q, i, true) else (q, i, false)

def subMatches (T : Tables) (out : Nat → List String) (word : String) : Bool :=
  (subLoop T out .matchesMode word.toList (word.length + 1) 0 0).2.2

/-- `_<cmd>_subword complete`: the candidates it appends to `matches` -/
def subComplete (T : Tables) (out : Nat → List String) (word : String) : List String :=
  let w := word.toList
  let (q, i, _) := subLoop T out .complete w (w.length + 1) 0 0
  let matched := String.ofList (w.take i)
  let completed := w.drop i
  let rec levels : Nat → Nat → List String → List String
    | 0, _, _ => []
    | fuel + 1, lvl, cands =>
      let cands := cands ++ (idsAt T.litLevels lvl q).map fun id => matched ++ (T.literals[id]?.getD "")
      let m1 := cands.filter fun c => isPrefix w c.toList
      let m2 := (idsAt T.cmdLevels lvl q).flatMap fun cmd =>
        ((out cmd).filter fun o => isPrefix completed o.toList).map fun o => matched ++ o
      if !(m1 ++ m2).isEmpty then m1 ++ m2
      else if lvl ≥ T.maxLevel then [] else levels fuel (lvl + 1) cands
  levels (T.maxLevel + 1) 0 []

/-! ### between words -/

structure Script where
  main : Tables
  subs : List (Nat × Tables)
  out : Nat → List String

def Script.sub (S : Script) (id : Nat) : Tables := ((S.subs.find? (·.1 == id)).map (·.2)).getD default

inductive Walk where
  | state (q : Nat)
  | unmatched
deriving Repr, DecidableEq

/-- one complete word at state `q`: the next state, or `none`; the flag says that a command with
candidates was expected (for the last-word heuristic) -/
def readWord (S : Script) (q : Nat) (word : String) : Option Nat × Bool :=
  let T := S.main
  let lit : Option Nat := match rowOf T.litTrans q with
    | some row => ((List.range T.literals.length).findSome? fun id =>
        if T.literals[id]? == some word then toOf row id else none)
    | none => none
  match lit with
  | some q' => (some q', false)
  | none =>
    let sw : Option Nat := match rowOf T.subTrans q with
      | some row => row.findSome? fun (id, to) => if subMatches (S.sub id) S.out word then some to else none
      | none => none
    match sw with
    | some q' => (some q', false)
    | none =>
      let cmdRow := (rowOf T.cmdTrans q).getD []
      let seen := cmdRow.any fun (cmd, _) => !((S.out cmd).filter (· ≠ "")).isEmpty
      let cm : Option Nat := cmdRow.findSome? fun (cmd, to) => if (S.out cmd).contains word then some to else none
      match cm with
      | some q' => (some q', seen)
      | none =>
        match T.star.find? (·.1 == q) with
        | some (_, q') => (some q', seen)
        | none => (none, seen)

def walk (S : Script) : Nat → List String → Walk
  | q, [] => .state q
  | q, w :: ws =>
    match readWord S q w with
    | (some q', _) => walk S q' ws
    | (none, seen) => if seen && ws.isEmpty then .state q else .unmatched

/-- the fallback-level loop of `_<cmd>` at state `q` for the typed prefix -/
def offer (S : Script) (q : Nat) (prefix_ : String) : List String :=
  let T := S.main
  let p := prefix_.toList
  let rec levels : Nat → Nat → List String → List String
    | 0, _, _ => []
    | fuel + 1, lvl, cands =>
      let cands := cands ++ (idsAt T.litLevels lvl q).map fun id => (T.literals[id]?.getD "") ++ " "
      let m1 := cands.filter fun c => isPrefix p c.toList
      let m2 := (idsAt T.subLevels lvl q).flatMap fun id => subComplete (S.sub id) S.out prefix_
      let cmds := idsAt T.cmdLevels lvl q
      let m3 := cmds.flatMap fun cmd => (S.out cmd).filter fun o => isPrefix p o.toList
      let cands' := match cmds.getLast? with
        | some cmd => S.out cmd      -- `readarray -t candidates` overwrites the array
        | none => cands
      if !(m1 ++ m2 ++ m3).isEmpty then m1 ++ m2 ++ m3
      else if lvl ≥ T.maxLevel then [] else levels fuel (lvl + 1) cands'
  levels (T.maxLevel + 1) 0 []

/-- the part of the typed prefix up to its last COMP_WORDBREAKS character -/
def superfluous (p wb : List Char) : List Char :=
  let idx := (List.range p.length).foldl (fun best i => if wb.contains (p[i]!) then some i else best) (none : Option Nat)
  match idx with
  | some i => p.take (i + 1)
  | none => []

def stripPrefix (pre s : List Char) : List Char := if pre.isPrefixOf s then s.drop pre.length else s

/-- `_<cmd>`: `none` = return code 1, `some cs` = COMPREPLY -/
def complete (S : Script) (start : Nat) (words : List String) (prefix_ wb : String) : Option (List String) :=
  match walk S start words with
  | .unmatched => none
  | .state q =>
    let ms := offer S q prefix_
    let pre := superfluous prefix_.toList wb.toList
    some (ms.map fun m => String.ofList (stripPrefix pre m.toList))

end Complgen.BashRt
