/-
Model of regex.rs: the position-numbered regular expression built by `do_from_expr`, with
`nullable` / `firstpos` / `lastpos` / `followpos` (Dragon book 3.9.5).

Representation.  The arena of `RegexNode`s becomes a tree.  `Optional e` is `Or[x, Epsilon]` as in
the code.  `Many1 e` is `RegexNode::Plus(x)` (since the repair of the exponential traversal; it was
`Cat[x, Star(x)]` with one shared arena node before) = the constructor `plus x`:
  nullable = nullable x, first = first x, last = last x,
  follow = follow x ∪ last x × first x.
The n-ary `Cat`/`Or` loops are cons-recursions over the child list.
-/
import Complgen.Model.Syntax
namespace Complgen

inductive RxInput where
  | lit (t : String) (d : Option String) (lvl : Nat) (sp : Span)
  | nonterm (n : String) (lvl : Nat) (sp : Span)
  | cmd (c : String) (compadd : Bool) (lvl : Nat) (sp : Span)
  | sub (rid : Nat) (lvl : Nat) (sp : Span)
deriving DecidableEq, Repr, Inhabited, BEq

def RxInput.span : RxInput → Span
  | .lit _ _ _ s | .nonterm _ _ s | .cmd _ _ _ s | .sub _ _ s => s

def RxInput.text : RxInput → String
  | .lit t d l s => s!"L {Hex.encode t} {Hex.encodeOpt d} {l} {s.text}"
  | .nonterm n l s => s!"N {Hex.encode n} {l} {s.text}"
  | .cmd c a l s => s!"C {Hex.encode c} {if a then 1 else 0} {l} {s.text}"
  | .sub r l s => s!"W {r} {l} {s.text}"

mutual
inductive Rx where
  | eps
  | sym (p : Nat)
  | cat (cs : RxL)
  | or (cs : RxL)
  | plus (c : Rx)
inductive RxL where
  | nil
  | cons (c : Rx) (cs : RxL)
end

instance : Inhabited Rx := ⟨.eps⟩

mutual
def Rx.beq : Rx → Rx → Bool
  | .eps, .eps => true
  | .sym p, .sym q => p == q
  | .cat a, .cat b => RxL.beq a b
  | .or a, .or b => RxL.beq a b
  | .plus a, .plus b => Rx.beq a b
  | _, _ => false
def RxL.beq : RxL → RxL → Bool
  | .nil, .nil => true
  | .cons a as, .cons b bs => Rx.beq a b && RxL.beq as bs
  | _, _ => false
end
instance : BEq Rx := ⟨Rx.beq⟩

def RxL.length : RxL → Nat
  | .nil => 0
  | .cons _ cs => cs.length + 1

namespace Rx

mutual
def nullable : Rx → Bool
  | .eps => true
  | .sym _ => false
  | .cat cs => nullableAll cs
  | .or cs => nullableAny cs
  | .plus c => nullable c
def nullableAll : RxL → Bool
  | .nil => true
  | .cons c cs => nullable c && nullableAll cs
def nullableAny : RxL → Bool
  | .nil => false
  | .cons c cs => nullable c || nullableAny cs
end

mutual
def first : Rx → List Nat
  | .eps => []
  | .sym p => [p]
  | .cat cs => firstCat cs
  | .or cs => firstOr cs
  | .plus c => first c
/-- `for child in children { add firstpos(child); if !nullable(child) { break } }` -/
def firstCat : RxL → List Nat
  | .nil => []
  | .cons c cs => first c ++ (if nullable c then firstCat cs else [])
def firstOr : RxL → List Nat
  | .nil => []
  | .cons c cs => first c ++ firstOr cs
end

mutual
def last : Rx → List Nat
  | .eps => []
  | .sym p => [p]
  | .cat cs => lastCat cs
  | .or cs => lastOr cs
  | .plus c => last c
/-- the reversed loop: the last child's lastpos, and those of earlier children while everything
after them is nullable -/
def lastCat : RxL → List Nat
  | .nil => []
  | .cons c cs => lastCat cs ++ (if nullableAll cs then last c else [])
def lastOr : RxL → List Nat
  | .nil => []
  | .cons c cs => last c ++ lastOr cs
end

mutual
/-- `followpos` of one position -/
def follow : Rx → Nat → List Nat
  | .eps, _ => []
  | .sym _, _ => []
  | .cat cs, p => followCat cs p
  | .or cs, p => followOr cs p
  | .plus c, p => follow c p ++ (if p ∈ last c then first c else [])
/-- children's own followpos, plus for each child `i`: lastpos(child i) × heads, where heads
collects firstpos of the following children up to and including the first non-nullable one -/
def followCat : RxL → Nat → List Nat
  | .nil, _ => []
  | .cons c cs, p => follow c p ++ followCat cs p ++ (if p ∈ last c then firstCat cs else [])
def followOr : RxL → Nat → List Nat
  | .nil, _ => []
  | .cons c cs, p => follow c p ++ followOr cs p
end

mutual
def positions : Rx → List Nat
  | .eps => []
  | .sym p => [p]
  | .cat cs => positionsL cs
  | .or cs => positionsL cs
  | .plus c => positions c
def positionsL : RxL → List Nat
  | .nil => []
  | .cons c cs => positions c ++ positionsL cs
end

mutual
/-- the arena tree as `vh` prints it (`plus x` is `RegexNode::Plus`) -/
def text : Rx → String
  | .eps => "E "
  | .sym p => s!"P {p} "
  | .cat cs => s!"K {cs.length} " ++ textL cs
  | .or cs => s!"U {cs.length} " ++ textL cs
  | .plus c => "Q " ++ text c
def textL : RxL → String
  | .nil => ""
  | .cons c cs => text c ++ textL cs
end

end Rx

/-- `Regex`: `root` is the expression proper; the code's root is `Cat[root, EndMarker(endPos)]`
with `endPos = inputs.length`. -/
structure Regex where
  root : Rx
  inputs : List RxInput
deriving Inhabited

def Regex.endPos (r : Regex) : Nat := r.inputs.length

def Regex.beq (a b : Regex) : Bool := a.root == b.root && a.inputs == b.inputs
instance : BEq Regex := ⟨Regex.beq⟩

/-- the code's root node -/
def Regex.full (r : Regex) : Rx := .cat (.cons r.root (.cons (.sym r.endPos) .nil))

def Regex.nullable (r : Regex) : Bool := r.root.nullable   -- EndMarker is "nullable" in the code
def Regex.first (r : Regex) : List Nat := r.full.first
def Regex.follow (r : Regex) (p : Nat) : List Nat := r.full.follow p

/-- `RegexInternPool` -/
abbrev RxPool := List Regex

def RxPool.intern (pool : RxPool) (r : Regex) : RxPool × Nat :=
  match pool.findIdx? (· == r) with
  | some i => (pool, i)
  | none => (pool ++ [r], pool.length)

mutual
/-- `do_from_expr`; state = (inputs so far, pool). Subwords are compiled recursively by
`Regex::from_expr` and interned. -/
def rxOfExpr : Expr → List RxInput × RxPool → Rx × (List RxInput × RxPool)
  | .term t d l s, (ins, pool) => (.sym ins.length, (ins ++ [.lit t d l s], pool))
  | .nonterm n l s, (ins, pool) => (.sym ins.length, (ins ++ [.nonterm n l s], pool))
  | .cmd c a l s, (ins, pool) => (.sym ins.length, (ins ++ [.cmd c a l s], pool))
  | .sub c l s, (ins, pool) =>
    let (r, (subIns, pool)) := rxOfExpr c ([], pool)
    let (pool, rid) := pool.intern ⟨r, subIns⟩
    (.sym ins.length, (ins ++ [.sub rid l s], pool))
  | .seq cs _, st => let (rs, st) := rxOfExprL cs st; (.cat rs, st)
  | .alt cs _, st => let (rs, st) := rxOfExprL cs st; (.or rs, st)
  | .fb cs _, st => let (rs, st) := rxOfExprL cs st; (.or rs, st)
  | .opt c _, st => let (r, st) := rxOfExpr c st; (.or (.cons r (.cons .eps .nil)), st)
  | .many1 c _, st => let (r, st) := rxOfExpr c st; (.plus r, st)
  | .dd _ _ _, st => (.eps, st)  -- `unreachable!()`
def rxOfExprL : ExprL → List RxInput × RxPool → RxL × (List RxInput × RxPool)
  | .nil, st => (.nil, st)
  | .cons e es, st =>
    let (r, st) := rxOfExpr e st
    let (rs, st) := rxOfExprL es st
    (.cons r rs, st)
end

/-- `Regex::from_expr` at top level -/
def Regex.ofExpr (e : Expr) (pool : RxPool) : Regex × RxPool :=
  let (r, (ins, pool)) := rxOfExpr e ([], pool)
  (⟨r, ins⟩, pool)

def dedup (l : List Nat) : List Nat := l.foldl (fun acc x => if acc.contains x then acc else acc ++ [x]) []

def insertSorted (x : Nat) : List Nat → List Nat
  | [] => [x]
  | y :: ys => if x < y then x :: y :: ys else if x == y then y :: ys else y :: insertSorted x ys

/-- canonical form of a set of positions (a `RoaringBitmap` / `BTreeSet` iterates in increasing order) -/
def normSet (l : List Nat) : List Nat := l.foldl (fun acc x => insertSorted x acc) []

end Complgen
