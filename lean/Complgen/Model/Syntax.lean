/-
The grammar tree of parse.rs (`Expr`, `Statement`, `Grammar`), as a tree instead of an arena of
`ExprId`s (ids never reach an output; spans, which take part in regex interning equality, are kept),
and its canonical text form (the one `vh` prints, DESIGN.md Appendix B).
-/
import Complgen.Basic
import Complgen.Model.Hex
namespace Complgen

mutual
inductive Expr where
  | term (t : String) (descr : Option String) (lvl : Nat) (sp : Span)
  | nonterm (n : String) (lvl : Nat) (sp : Span)
  | cmd (c : String) (compadd : Bool) (lvl : Nat) (sp : Span)
  | seq (cs : ExprL) (sp : Span)
  | alt (cs : ExprL) (sp : Span)
  | fb (cs : ExprL) (sp : Span)
  | opt (c : Expr) (sp : Span)
  | many1 (c : Expr) (sp : Span)
  | dd (c : Expr) (descr : String) (sp : Span)
  | sub (c : Expr) (lvl : Nat) (sp : Span)
inductive ExprL where
  | nil
  | cons (e : Expr) (es : ExprL)
end

instance : Inhabited Expr := ⟨.seq .nil ⟨0, 0, 0⟩⟩

mutual
def Expr.beq : Expr → Expr → Bool
  | .term t d l s, .term t' d' l' s' => t == t' && d == d' && l == l' && s == s'
  | .nonterm n l s, .nonterm n' l' s' => n == n' && l == l' && s == s'
  | .cmd c a l s, .cmd c' a' l' s' => c == c' && a == a' && l == l' && s == s'
  | .seq cs s, .seq cs' s' => ExprL.beq cs cs' && s == s'
  | .alt cs s, .alt cs' s' => ExprL.beq cs cs' && s == s'
  | .fb cs s, .fb cs' s' => ExprL.beq cs cs' && s == s'
  | .opt c s, .opt c' s' => Expr.beq c c' && s == s'
  | .many1 c s, .many1 c' s' => Expr.beq c c' && s == s'
  | .dd c d s, .dd c' d' s' => Expr.beq c c' && d == d' && s == s'
  | .sub c l s, .sub c' l' s' => Expr.beq c c' && l == l' && s == s'
  | _, _ => false
def ExprL.beq : ExprL → ExprL → Bool
  | .nil, .nil => true
  | .cons e es, .cons e' es' => Expr.beq e e' && ExprL.beq es es'
  | _, _ => false
end

instance : BEq Expr := ⟨Expr.beq⟩
instance : BEq ExprL := ⟨ExprL.beq⟩

def ExprL.toList : ExprL → List Expr
  | .nil => []
  | .cons e es => e :: es.toList

def ExprL.ofList : List Expr → ExprL
  | [] => .nil
  | e :: es => .cons e (ExprL.ofList es)

def ExprL.length : ExprL → Nat
  | .nil => 0
  | .cons _ es => es.length + 1

def Expr.span : Expr → Span
  | .term _ _ _ s | .nonterm _ _ s | .cmd _ _ _ s | .seq _ s | .alt _ s | .fb _ s | .opt _ s
  | .many1 _ s | .dd _ _ s | .sub _ _ s => s

mutual
/-- the same tree with every source location erased (spans never influence meaning) -/
def Expr.eraseSpans : Expr → Expr
  | .term t d l _ => .term t d l default
  | .nonterm n l _ => .nonterm n l default
  | .cmd c a l _ => .cmd c a l default
  | .seq cs _ => .seq (ExprL.eraseSpans cs) default
  | .alt cs _ => .alt (ExprL.eraseSpans cs) default
  | .fb cs _ => .fb (ExprL.eraseSpans cs) default
  | .opt c _ => .opt (Expr.eraseSpans c) default
  | .many1 c _ => .many1 (Expr.eraseSpans c) default
  | .dd c d _ => .dd (Expr.eraseSpans c) d default
  | .sub c l _ => .sub (Expr.eraseSpans c) l default
def ExprL.eraseSpans : ExprL → ExprL
  | .nil => .nil
  | .cons e es => .cons (Expr.eraseSpans e) (ExprL.eraseSpans es)
end

inductive Stmt where
  /-- `name expr;` -/
  | call (name : String) (nameSp : Span) (e : Expr)
  /-- `<name> = expr;` or `<name@shell> = expr;` -/
  | defn (name : String) (sp : Span) (shell : Option (String × Span)) (rhs : Expr)
deriving Inhabited

abbrev Grammar := List Stmt

/-! ## canonical text form -/

def Span.text (s : Span) : String := s!"{s.line}:{s.cs}:{s.ce}"

mutual
def Expr.text : Expr → String
  | .term t d l s => s!"T {Hex.encode t} {Hex.encodeOpt d} {l} {s.text} "
  | .nonterm n l s => s!"N {Hex.encode n} {l} {s.text} "
  | .cmd c a l s => s!"C {Hex.encode c} {if a then 1 else 0} {l} {s.text} "
  | .seq cs s => s!"S {cs.length} {s.text} " ++ ExprL.text cs
  | .alt cs s => s!"A {cs.length} {s.text} " ++ ExprL.text cs
  | .fb cs s => s!"F {cs.length} {s.text} " ++ ExprL.text cs
  | .opt c s => s!"O {s.text} " ++ Expr.text c
  | .many1 c s => s!"M {s.text} " ++ Expr.text c
  | .dd c d s => s!"D {Hex.encode d} {s.text} " ++ Expr.text c
  | .sub c l s => s!"W {l} {s.text} " ++ Expr.text c
def ExprL.text : ExprL → String
  | .nil => ""
  | .cons e es => Expr.text e ++ ExprL.text es
end

def Stmt.text : Stmt → String
  | .call n s e => s!"V {Hex.encode n} {s.text} " ++ e.text
  | .defn n s none e => s!"R {Hex.encode n} {s.text} - - " ++ e.text
  | .defn n s (some (sh, ss)) e => s!"R {Hex.encode n} {s.text} {Hex.encode sh} {ss.text} " ++ e.text

def Grammar.text (g : Grammar) : String :=
  (s!"G {g.length} " ++ String.join (g.map Stmt.text)).trimAsciiEnd.toString

/-! ## reader of the canonical text form -/

def parseSpan (s : String) : Option Span :=
  match s.splitOn ":" with
  | [a, b, c] => do some ⟨← a.toNat?, ← b.toNat?, ← c.toNat?⟩
  | _ => none

mutual
def readExpr : Nat → List String → Option (Expr × List String)
  | 0, _ => none
  | fuel + 1, toks =>
    match toks with
    | "T" :: t :: d :: l :: s :: rest => do
      some (.term (← Hex.decode t) (← Hex.decodeOpt d) (← l.toNat?) (← parseSpan s), rest)
    | "N" :: n :: l :: s :: rest => do
      some (.nonterm (← Hex.decode n) (← l.toNat?) (← parseSpan s), rest)
    | "C" :: c :: a :: l :: s :: rest => do
      some (.cmd (← Hex.decode c) (a == "1") (← l.toNat?) (← parseSpan s), rest)
    | "S" :: n :: s :: rest => do
      let (cs, rest) ← readExprs fuel (← n.toNat?) rest
      some (.seq cs (← parseSpan s), rest)
    | "A" :: n :: s :: rest => do
      let (cs, rest) ← readExprs fuel (← n.toNat?) rest
      some (.alt cs (← parseSpan s), rest)
    | "F" :: n :: s :: rest => do
      let (cs, rest) ← readExprs fuel (← n.toNat?) rest
      some (.fb cs (← parseSpan s), rest)
    | "O" :: s :: rest => do
      let (c, rest) ← readExpr fuel rest
      some (.opt c (← parseSpan s), rest)
    | "M" :: s :: rest => do
      let (c, rest) ← readExpr fuel rest
      some (.many1 c (← parseSpan s), rest)
    | "D" :: d :: s :: rest => do
      let (c, rest) ← readExpr fuel rest
      some (.dd c (← Hex.decode d) (← parseSpan s), rest)
    | "W" :: l :: s :: rest => do
      let (c, rest) ← readExpr fuel rest
      some (.sub c (← l.toNat?) (← parseSpan s), rest)
    | _ => none
def readExprs : Nat → Nat → List String → Option (ExprL × List String)
  | 0, _, _ => none
  | _ + 1, 0, toks => some (.nil, toks)
  | fuel + 1, n + 1, toks => do
    let (e, rest) ← readExpr fuel toks
    let (es, rest) ← readExprs fuel n rest
    some (.cons e es, rest)
end

def readStmt (toks : List String) : Option (Stmt × List String) :=
  match toks with
  | "V" :: n :: s :: rest => do
    let (e, rest) ← readExpr (rest.length + 1) rest
    some (.call (← Hex.decode n) (← parseSpan s) e, rest)
  | "R" :: n :: s :: "-" :: "-" :: rest => do
    let (e, rest) ← readExpr (rest.length + 1) rest
    some (.defn (← Hex.decode n) (← parseSpan s) none e, rest)
  | "R" :: n :: s :: sh :: ss :: rest => do
    let (e, rest) ← readExpr (rest.length + 1) rest
    some (.defn (← Hex.decode n) (← parseSpan s) (some (← Hex.decode sh, ← parseSpan ss)) e, rest)
  | _ => none

def readStmts : Nat → List String → Option (List Stmt)
  | 0, [] => some []
  | 0, _ => none
  | n + 1, toks => do
    let (s, rest) ← readStmt toks
    let ss ← readStmts n rest
    some (s :: ss)

def readGrammar (s : String) : Option Grammar :=
  match (s.splitOn " ").filter (· ≠ "") with
  | "G" :: n :: rest => do readStmts (← n.toNat?) rest
  | _ => none

def readExprText (s : String) : Option Expr :=
  let toks := (s.splitOn " ").filter (· ≠ "")
  match readExpr (toks.length + 1) toks with
  | some (e, []) => some e
  | _ => none

end Complgen
