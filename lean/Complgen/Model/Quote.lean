/-
Model of the `make_string_constant` functions of bash.rs / fish.rs / zsh.rs / pwsh.rs and of
`make_dot_string_constant` (regex.rs): a *chain* of Rust `str::replace(char, &str)` calls, applied
left to right, wrapped in double quotes.  The chains themselves are not written here: they are
regenerated from the Rust source on every run into `Complgen/Gen/Chains.lean`.

Also: the reader side.  `Dialect` describes how a shell reads the inside of a double-quoted string
(which characters end the string or start an expansion, what the escape character is and what it
does in front of each character); `Dialect.decode` is that reader.
-/
namespace Complgen.Quote

/-- One `s.replace(p, r)` with a `char` pattern: every occurrence of `p` becomes `r`. -/
def rep1 (p : Char) (r : List Char) (s : List Char) : List Char :=
  s.flatMap (fun c => if c = p then r else [c])

/-- A chain of replacements, applied in order (`s.replace(..).replace(..)…`). -/
abbrev Chain := List (Char × List Char)

def applyChain (ch : Chain) (s : List Char) : List Char :=
  ch.foldl (fun acc pr => rep1 pr.1 pr.2 acc) s

/-- How a shell reads the text between two double quotes. -/
structure Dialect where
  /-- the escape character -/
  esc : Char
  /-- unescaped occurrences of these end the string or start an expansion / substitution -/
  special : List Char
  /-- `escMap d = some t`: the two characters `esc d` are read as the text `t` -/
  escMap : Char → Option (List Char)
  /-- what `esc d` means when `escMap d = none`: keep both characters (POSIX-like) or drop `esc` -/
  keepUnknown : Bool

/-- The reader.  `none` = the text is not one inert string constant (an unescaped special
character, or an escape character swallowing the closing quote). -/
def Dialect.decode (D : Dialect) : List Char → Option (List Char)
  | [] => some []
  | [c] => if c = D.esc then none else if c ∈ D.special then none else some [c]
  | c :: d :: rest =>
    if c = D.esc then
      match D.escMap d with
      | some t => (D.decode rest).map (t ++ ·)
      | none =>
        if D.keepUnknown then (D.decode rest).map (fun r => c :: d :: r)
        else (D.decode rest).map (fun r => d :: r)
    else if c ∈ D.special then none
    else (D.decode (d :: rest)).map (c :: ·)

/-- bash and zsh: inside `"…"` a backslash quotes only `$`, `` ` ``, `"`, `\` and newline
(bash(1) QUOTING; zshmisc(1) Quoting). -/
def posixEscMap : Char → Option (List Char)
  | '$' => some ['$']
  | '`' => some ['`']
  | '"' => some ['"']
  | '\\' => some ['\\']
  | '\n' => some []
  | _ => none

def bashDialect : Dialect :=
  { esc := '\\', special := ['"', '$', '`'], escMap := posixEscMap, keepUnknown := true }

def zshDialect : Dialect := bashDialect

/-- fish: inside `"…"` the only escapes are `\"`, `\$`, `\\` and backslash-newline
(fish language reference, Quotes). -/
def fishEscMap : Char → Option (List Char)
  | '$' => some ['$']
  | '"' => some ['"']
  | '\\' => some ['\\']
  | '\n' => some []
  | _ => none

def fishDialect : Dialect :=
  { esc := '\\', special := ['"', '$'], escMap := fishEscMap, keepUnknown := true }

/-- PowerShell: backtick escapes; `` `n `` etc. are control characters, an unknown escaped
character stands for itself; besides `"` the typographic quotes U+201C, U+201D, U+201E also end an
expandable string (about_Quoting_Rules, about_Special_Characters). -/
def pwshEscMap : Char → Option (List Char)
  | '0' => some ['\x00']
  | 'a' => some ['\x07']
  | 'b' => some ['\x08']
  | 'e' => some ['\x1b']
  | 'f' => some ['\x0c']
  | 'n' => some ['\n']
  | 'r' => some ['\r']
  | 't' => some ['\t']
  | 'v' => some ['\x0b']
  | 'u' => some ['u']  -- `u{…} is never produced by the emitter; modelled as "unknown"
  | _ => none

def pwshDialect : Dialect :=
  { esc := '`', special := ['"', '$', '“', '”', '„'], escMap := pwshEscMap,
    keepUnknown := false }

/-- Graphviz DOT: in a double-quoted string the only escape is `\"`; every other backslash
sequence is kept as is for the label renderer, for which `\\` is a backslash
(the DOT language, "quoted strings"). We decode at the label level: `\\` ↦ `\`, `\"` ↦ `"`. -/
def dotEscMap : Char → Option (List Char)
  | '"' => some ['"']
  | '\\' => some ['\\']
  | _ => none

def dotDialect : Dialect :=
  { esc := '\\', special := ['"'], escMap := dotEscMap, keepUnknown := true }

/-- The characters on which a chain or a dialect does anything at all. -/
def interesting (D : Dialect) (ch : Chain) : List Char :=
  D.esc :: D.special ++ ch.map (·.1)

/-- What the chain does to one character is read back as that character:
either it is left alone and is plain, or it becomes `esc d` where `esc d` is read as `c`. -/
def okChar (D : Dialect) (ch : Chain) (c : Char) : Bool :=
  let e := applyChain ch [c]
  (e == [c] && c != D.esc && !(D.special.contains c)) ||
  (match e with
   | [x, d] => x == D.esc &&
       (D.escMap d == some [c] || (D.escMap d == none && !D.keepUnknown && d == c))
   | _ => false)

/-- The decidable well-formedness predicate of a chain w.r.t. a dialect. -/
def chainOK (D : Dialect) (ch : Chain) : Bool :=
  (interesting D ch).all (okChar D ch)

end Complgen.Quote
