/-
Model of dfa.rs: input symbols (`Inp`), automata, and the direct regex → DFA construction
(`dfa_from_regex`, Dragon book 3.9.5).  The `HashSet` work-list of the code becomes a list from
which a *schedule* `σ` picks the next set of positions; theorems quantify over all schedules.
-/
import Complgen.Model.Rx
namespace Complgen

/-- `dfa::Inp`: `sub k` refers to the k-th within-word automaton of the pool. -/
inductive Inp where
  | lit (t : String) (d : Option String) (lvl : Nat)
  | sub (k : Nat) (lvl : Nat)
  | cmd (c : String) (lvl : Nat)
  | compadd (c : String) (lvl : Nat)
  | star
deriving DecidableEq, Repr, Inhabited, BEq

def Inp.text : Inp → String
  | .lit t d l => s!"L {Hex.encode t} {Hex.encodeOpt d} {l}"
  | .sub k l => s!"W {k} {l}"
  | .cmd c l => s!"C {Hex.encode c} 0 {l}"
  | .compadd c l => s!"C {Hex.encode c} 1 {l}"
  | .star => "X"

def Inp.level? : Inp → Option Nat
  | .lit _ _ l | .sub _ l | .cmd _ l | .compadd _ l => some l
  | .star => none

/-- An automaton over symbol indices into `inputs`; `trans` in insertion order (the code keeps
`IndexMap`s).  No transition = the implicit dead state. -/
structure Auto where
  start : Nat
  trans : List (Nat × Nat × Nat)   -- (from, input index, to)
  acc : List Nat
  inputs : List Inp
deriving Inhabited, Repr, BEq

def Auto.step (a : Auto) (q i : Nat) : Option Nat :=
  (a.trans.find? (fun t => t.1 == q && t.2.1 == i)).map (·.2.2)

def Auto.states (a : Auto) : List Nat :=
  dedup (a.start :: a.trans.flatMap (fun t => [t.1, t.2.2]))

def Auto.transFrom (a : Auto) (q : Nat) : List (Nat × Nat) :=
  (a.trans.filter (·.1 == q)).map (·.2)

/-- The main automaton with the pool of within-word automata (`DFA.subdfas`). -/
structure Dfa where
  main : Auto
  subs : List Auto
deriving Inhabited, Repr

/-- `DFAInternPool::intern`: equality of automata as the code defines it since repair 131db37 — the
same transitions and the same interned inputs *in the same order* (ids are positions), the same set
of accepting states. -/
def Auto.same (a b : Auto) : Bool :=
  a.start == b.start &&
  a.trans == b.trans &&
  normSet a.acc == normSet b.acc &&
  a.inputs == b.inputs

/-- A schedule: given the step number and the current work-list length, which entry is next. -/
abbrev Schedule := Nat → Nat → Nat

def fifo : Schedule := fun _ _ => 0

def removeNth {α} : List α → Nat → List α
  | [], _ => []
  | _ :: xs, 0 => xs
  | x :: xs, n + 1 => x :: removeNth xs n

structure BuildState where
  ids : List (List Nat × Nat)         -- state_id_from_set_of_positions, insertion order
  next : Nat
  work : List (List Nat)
  trans : List (Nat × Nat × Nat)

/-- Target set of a state on symbol `inp`: union of followpos of the positions carrying `inp`. -/
def targetSet (follow : Nat → List Nat) (symOf : Nat → Option Inp) (state : List Nat) (inp : Inp) :
    List Nat :=
  normSet (state.flatMap fun p => if symOf p == some inp then follow p else [])

def processInputs (follow : Nat → List Nat) (symOf : Nat → Option Inp) (state : List Nat)
    (fromId : Nat) : List (Nat × Inp) → BuildState → BuildState
  | [], st => st
  | (i, inp) :: rest, st =>
    let tgt := targetSet follow symOf state inp
    if tgt.isEmpty then processInputs follow symOf state fromId rest st
    else
      match st.ids.find? (·.1 == tgt) with
      | some (_, id) =>
        processInputs follow symOf state fromId rest { st with trans := st.trans ++ [(fromId, i, id)] }
      | none =>
        processInputs follow symOf state fromId rest
          { ids := st.ids ++ [(tgt, st.next)], next := st.next + 1, work := st.work ++ [tgt],
            trans := st.trans ++ [(fromId, i, st.next)] }

/-- the `while let Some(state) = unmarked_states.iter().next()` loop -/
def buildLoop (σ : Schedule) (follow : Nat → List Nat) (symOf : Nat → Option Inp)
    (inputs : List (Nat × Inp)) : Nat → Nat → BuildState → Option BuildState
  | 0, _, st => if st.work.isEmpty then some st else none
  | fuel + 1, step, st =>
    if st.work.isEmpty then some st else
    let k := σ step st.work.length % st.work.length
    match st.work[k]? with
    | none => none
    | some state =>
      let st := { st with work := removeNth st.work k }
      match st.ids.find? (·.1 == state) with
      | none => none
      | some (_, fromId) =>
        buildLoop σ follow symOf inputs fuel (step + 1) (processInputs follow symOf state fromId inputs st)

def indexed {α} (l : List α) : List (Nat × α) := l.zipIdx.map (fun p => (p.2, p.1))

def internInps (l : List Inp) : List Inp :=
  l.foldl (fun acc x => if acc.contains x then acc else acc ++ [x]) []

/-- `dfa_from_regex` given the symbol of every position (`Inp::from_input`). -/
def buildAuto (σ : Schedule) (r : Regex) (symOf : Nat → Option Inp) : Option Auto :=
  let inputs := internInps ((List.range r.inputs.length).filterMap symOf)
  let start := normSet r.first
  -- every round of the loop pops one set of positions and every set is pushed once, when it gets its
  -- id; the sets are subsets of the positions 0 … n (n = the end marker), so 2^(n+1) rounds suffice
  -- (the loop stops as soon as the work-list is empty; the number is only a bound)
  let fuel := 2 ^ (r.inputs.length + 1) + 8
  match buildLoop σ r.follow symOf (indexed inputs) fuel 0
      { ids := [(start, 1)], next := 2, work := [start], trans := [] } with
  | none => none
  | some st =>
    some { start := 1
           trans := st.trans
           acc := (st.ids.filter (fun p => p.1.contains r.endPos)).map (·.2)
           inputs := inputs }

/-- Run an automaton on a word of symbol indices. -/
def Auto.run (a : Auto) : Nat → List Nat → Option Nat
  | q, [] => some q
  | q, i :: w => match a.step q i with
    | some q' => a.run q' w
    | none => none

def Auto.accepts (a : Auto) (w : List Nat) : Bool :=
  match a.run a.start w with
  | some q => a.acc.contains q
  | none => false

def Auto.text (a : Auto) : String :=
  s!"start {a.start} ; acc {" ".intercalate (a.acc.map toString)} ; inputs {" | ".intercalate (a.inputs.map Inp.text)} ; trans {" ".intercalate (a.trans.map fun t => s!"{t.1},{t.2.1},{t.2.2}")}"

end Complgen
