/-
Model of the `--dfa` Graphviz dump of dfa.rs: `diagnostic_display_input`, `DFA::get_subwords`,
`do_to_dot` and `DFA::to_dot`, byte for byte.

The text is built as a `List Char` (the proofs in `Proofs/DotEmit.lean` read it back with the DOT
reader of `Model/Dot.lean`); `emitDfa` packs it into a `String`.

Where the Rust code iterates over an `IndexMap<StateId, IndexMap<InpId, StateId>>` the model has a
flat list of transitions in insertion order: `grouped` regroups it (every distinct `from` in the
order of its first appearance, its transitions in list order).  `RoaringBitmap`s iterate in
increasing order: `normSet`.

The flat list is taken to hold at most one transition per (`from`, input) pair, as a map does.
`StateId` arithmetic (`state + array_start`, `u32`) is modelled in `Nat`.

Totality: `dfa.get_input(i)` and `subdfas.lookup(k)` panic when out of range; the model reads
`Inp.star` resp. the empty automaton there.  `do_to_dot` recurses into the within-word automata;
the model recurses with a fuel (`emitDfa` gives `subs.length + 1`, which is enough for every pool
without a reference cycle; the pools of the pipeline have depth 1: sub-automata contain no
`Inp.sub`).  With the fuel used up the body of a cluster is left empty.
-/
import Complgen.Model.Dfa
import Complgen.Model.Dot
import Complgen.Model.Quote
namespace Complgen.Dot

/-! ### Rust formatting primitives -/

/-- `{}` of an unsigned integer -/
def natChars (n : Nat) : List Char := Nat.toDigits 10 n

/-- `{:x}` -/
def hexChars (n : Nat) : List Char := Nat.toDigits 16 n

/-- `char::escape_debug_ext` with the flags `str`'s `Debug` uses (double quote escaped, single
quote not), for ASCII; characters ≥ 128 are printed as they are (Rust escapes the non-printable
and the grapheme-extending ones among them as `\u{…}`: outside `debugInScope`). -/
def rustDebugChar (c : Char) : List Char :=
  if c = '"' then ['\\', '"']
  else if c = '\\' then ['\\', '\\']
  else if c = '\n' then ['\\', 'n']
  else if c = '\r' then ['\\', 'r']
  else if c = '\t' then ['\\', 't']
  else if c = '\x00' then ['\\', '0']
  else if c.toNat < 32 || c.toNat = 127 then ['\\', 'u', '{'] ++ hexChars c.toNat ++ ['}']
  else [c]

/-- `{:?}` of a `str` -/
def rustDebugStr (s : List Char) : List Char :=
  '"' :: s.flatMap rustDebugChar ++ ['"']

/-- the descriptions for which `rustDebugStr` is claimed to be what Rust prints: ASCII, or from
U+00A0 on except the soft hyphen U+00AD -/
def debugInScope (s : String) : Bool :=
  s.toList.all fun c => c.toNat < 128 || (c.toNat ≥ 0xA0 && c.toNat ≠ 0xAD)

/-! ### `diagnostic_display_input` -/

def displayInput : Inp → List Char
  | .lit t none lvl => t.toList ++ [' ', '('] ++ natChars lvl ++ [')']
  | .lit t (some d) lvl =>
    t.toList ++ [' '] ++ rustDebugStr d.toList ++ [' ', '('] ++ natChars lvl ++ [')']
  | .star => ['*']
  | .cmd c _ => ['{', '{', '{', ' '] ++ c.toList ++ [' ', '}', '}', '}']
  | .compadd c _ => ['{', '{', '{', ' '] ++ c.toList ++ [' ', '}', '}', '}'] ++ "compadd".toList
  | .sub _ lvl => "<SUBWORD> (".toList ++ natChars lvl ++ [')']

/-- `.replace('\\', "\\\\").replace('\"', "\\\"")` -/
def dotLabelChain : Quote.Chain := [('\\', ['\\', '\\']), ('"', ['\\', '"'])]

def escLabel (s : List Char) : List Char := Quote.applyChain dotLabelChain s

/-! ### iteration orders -/

/-- the transitions the way the nested `IndexMap` iterates -/
def grouped (a : Auto) : List (Nat × Nat × Nat) :=
  (dedup (a.trans.map (·.1))).flatMap fun q => a.trans.filter (·.1 == q)

/-- `dfa.get_input(i)` -/
def inputAt (a : Auto) (i : Nat) : Inp := a.inputs.getD i .star

def subKey (a : Auto) (t : Nat × Nat × Nat) : Option Nat :=
  match inputAt a t.2.1 with
  | .sub k _ => some k
  | _ => none

/-- `get_subwords(first_id)`: (sub-automaton, id) in order of first occurrence -/
def subwordIds (a : Auto) (first : Nat) : List (Nat × Nat) :=
  (dedup ((grouped a).filterMap (subKey a))).zipIdx.map fun p => (p.1, first + p.2)

/-- `*id_from_dfa.get(subdfaid).unwrap()` -/
def subwordId (ids : List (Nat × Nat)) (k : Nat) : Nat :=
  ((ids.find? (·.1 == k)).map (·.2)).getD 0

/-- `get_all_states()`: every `from` and `to`, plus the dead state 0 -/
def allStates (a : Auto) : List Nat :=
  normSet (0 :: a.trans.flatMap fun t => [t.1, t.2.2])

/-- `[all, accepting].difference()` without the starting state, in increasing order -/
def regularStates (a : Auto) : List Nat :=
  (allStates a).filter fun q => !a.acc.contains q && q != a.start

def acceptingStates (a : Auto) : List Nat := normSet a.acc

/-- `subdfas.lookup(k)` -/
def lookupSub (pool : List Auto) (k : Nat) : Auto := pool.getD k default

/-! ### `do_to_dot` -/

def indent (lvl : Nat) : List Char := '\t' :: List.replicate lvl '\t'

/-- `{subdfa_id}_` -/
def subPrefix (id : Nat) : List Char := natChars id ++ ['_']

/-- `_{prefix}{n}` -/
def nodeId (pre : List Char) (n : Nat) : List Char := '_' :: pre ++ natChars n

def shapeLine (ind : List Char) (shape : List Char) : List Char :=
  ind ++ "node [shape=".toList ++ shape ++ "];\n".toList

def nodeLine (ind pre : List Char) (n : Nat) : List Char :=
  ind ++ nodeId pre n ++ "[label=\"".toList ++ pre ++ natChars n ++ "\"];\n".toList

def dashedLine (ind src dst : List Char) : List Char :=
  ind ++ src ++ " -> ".toList ++ dst ++ " [style=\"dashed\"];\n".toList

def labelLine (ind src dst label : List Char) : List Char :=
  ind ++ src ++ " -> ".toList ++ dst ++ " [label=\"".toList ++ escLabel label ++ "\"];\n".toList

/-- the lines of one transition -/
def transLines (pool : List Auto) (a : Auto) (base : Nat) (ids : List (Nat × Nat))
    (ind pre : List Char) (t : Nat × Nat × Nat) : List Char :=
  match inputAt a t.2.1 with
  | .sub k _ =>
    let sub := lookupSub pool k
    let spre := subPrefix (subwordId ids k)
    dashedLine ind (nodeId pre (t.1 + base)) (nodeId spre (sub.start + base)) ++
    (acceptingStates sub).flatMap fun q =>
      dashedLine ind (nodeId spre (q + base)) (nodeId pre (t.2.2 + base))
  | inp =>
    labelLine ind (nodeId pre (t.1 + base)) (nodeId pre (t.2.2 + base)) (displayInput inp)

def clusterHead (ind pre : List Char) (id : Nat) : List Char :=
  ind ++ "subgraph cluster_".toList ++ pre ++ natChars id ++ " {\n".toList ++
  ind ++ "\tlabel=\"subword ".toList ++ natChars id ++ "\";\n".toList ++
  ind ++ "\tcolor=grey91;\n".toList ++
  ind ++ "\tstyle=filled;\n".toList

def clusterTail (ind : List Char) : List Char := ind ++ "}\n".toList

/-- the shape of the starting state -/
def startShape (a : Auto) : String :=
  if a.acc.contains a.start then "doubleoctagon" else "octagon"

/-- `do_to_dot(output, array_start = base, dfa = a, identifiers_prefix = pre,
recursion_level = lvl)`; `pool` = the within-word automata -/
def emitAuto : Nat → List Auto → Auto → Nat → List Char → Nat → List Char
  | fuel, pool, a, base, pre, lvl =>
    let ind := indent lvl
    let ids := subwordIds a base
    shapeLine ind (startShape a).toList ++
    nodeLine ind pre (a.start + base) ++
    shapeLine ind "circle".toList ++
    (regularStates a).flatMap (fun q => nodeLine ind pre (q + base)) ++
    ['\n'] ++
    shapeLine ind "doublecircle".toList ++
    (acceptingStates a).flatMap (fun q => nodeLine ind pre (q + base)) ++
    ['\n'] ++
    ids.flatMap (fun p =>
      clusterHead ind pre p.2 ++
      (match fuel with
       | 0 => []
       | f + 1 => emitAuto f pool (lookupSub pool p.1) base (subPrefix p.2) (lvl + 1)) ++
      clusterTail ind) ++
    (grouped a).flatMap (transLines pool a base ids ind pre)

/-- `DFA::to_dot(output, array_start = base)` as a list of characters -/
def emitDfaChars (d : Dfa) (base : Nat) : List Char :=
  "digraph dfa {\n".toList ++ "\trankdir=LR;\n".toList ++
  emitAuto (d.subs.length + 1) d.subs d.main base [] 0 ++
  "}\n".toList

/-- `DFA::to_dot(output, array_start = base)` -/
def emitDfa (d : Dfa) (base : Nat) : String := String.ofList (emitDfaChars d base)

/-! ### the graph the dump describes, as the statements the DOT reader returns -/

/-- what the reader keeps of an escaped label `escLabel s`: `\"` is read as a quote, a pair `\\`
is kept as a pair (for the label renderer, `Dot.display`, it is one backslash) -/
def labelValue (s : List Char) : List Char := Quote.rep1 '\\' ['\\', '\\'] s

def nodeName (pre : List Char) (n : Nat) : String := String.ofList (nodeId pre n)

/-- `node [shape=…];` -/
def shapeStmt (shape : String) : Stmt := .dflt "node" [⟨"shape", shape⟩]

/-- `_<prefix><n>[label="<prefix><n>"];` -/
def nodeStmt (pre : List Char) (n : Nat) : Stmt :=
  .node (nodeName pre n) [⟨"label", String.ofList (pre ++ natChars n)⟩]

def dashedStmt (src dst : String) : Stmt := .edge [src, dst] [⟨"style", "dashed"⟩]

def labelStmt (src dst : String) (label : List Char) : Stmt :=
  .edge [src, dst] [⟨"label", String.ofList (labelValue label)⟩]

/-- the edges of one transition: one labelled edge, or the dashed edges into the start of the
within-word automaton and out of each of its accepting states -/
def transStmts (pool : List Auto) (a : Auto) (base : Nat) (ids : List (Nat × Nat))
    (pre : List Char) (t : Nat × Nat × Nat) : List Stmt :=
  match inputAt a t.2.1 with
  | .sub k _ =>
    let sub := lookupSub pool k
    let spre := subPrefix (subwordId ids k)
    dashedStmt (nodeName pre (t.1 + base)) (nodeName spre (sub.start + base)) ::
    (acceptingStates sub).map fun q =>
      dashedStmt (nodeName spre (q + base)) (nodeName pre (t.2.2 + base))
  | inp => [labelStmt (nodeName pre (t.1 + base)) (nodeName pre (t.2.2 + base)) (displayInput inp)]

def clusterName (pre : List Char) (id : Nat) : String :=
  String.ofList ("cluster_".toList ++ pre ++ natChars id)

def clusterAttrs (id : Nat) : List Stmt :=
  [.assign "label" (String.ofList ("subword ".toList ++ natChars id)),
   .assign "color" "grey91", .assign "style" "filled"]

/-- the statements of `emitAuto` -/
def expAuto : Nat → List Auto → Auto → Nat → List Char → List Stmt
  | fuel, pool, a, base, pre =>
    let ids := subwordIds a base
    [shapeStmt (startShape a), nodeStmt pre (a.start + base), shapeStmt "circle"] ++
    (regularStates a).map (fun q => nodeStmt pre (q + base)) ++
    [shapeStmt "doublecircle"] ++
    (acceptingStates a).map (fun q => nodeStmt pre (q + base)) ++
    ids.map (fun p =>
      .sub (clusterName pre p.2)
        (clusterAttrs p.2 ++
          (match fuel with
           | 0 => []
           | f + 1 => expAuto f pool (lookupSub pool p.1) base (subPrefix p.2)))) ++
    (grouped a).flatMap (transStmts pool a base ids pre)

/-- the body of `digraph dfa { … }` -/
def expectedStmts (d : Dfa) (base : Nat) : List Stmt :=
  .assign "rankdir" "LR" :: expAuto (d.subs.length + 1) d.subs d.main base []

/-! ### examples (compare with dfa.rs) -/

-- `format!("{:?}", "a\"b\\c\nd\te\0f\x1b\x7f'é\r")`
#guard String.ofList (rustDebugStr "a\"b\\c\nd\te\x00f\x1b\x7f'é\r".toList)
    == "\"a\\\"b\\\\c\\nd\\te\\0f\\u{1b}\\u{7f}'é\\r\""

private def exSub : Auto :=
  { start := 1, trans := [(1, 0, 2), (2, 1, 3)], acc := [3],
    inputs := [.lit "--color=" none 0, .cmd "ls \"x\" \\ y" 0] }

private def exMain : Auto :=
  { start := 1
    trans := [(1, 0, 2), (2, 1, 3), (1, 2, 4), (4, 3, 3), (2, 4, 2)]
    acc := [3]
    inputs := [.lit "git" (some "the \"stupid\"\ttracker's \x1b\x7f é") 0, .sub 0 0, .star,
      .compadd "echo }" 1, .lit "a\\" none 2] }

/--
info: digraph dfa {
	rankdir=LR;
	node [shape=octagon];
	_1[label="1"];
	node [shape=circle];
	_0[label="0"];
	_2[label="2"];
	_4[label="4"];

	node [shape=doublecircle];
	_3[label="3"];

	subgraph cluster_0 {
		label="subword 0";
		color=grey91;
		style=filled;
		node [shape=octagon];
		_0_1[label="0_1"];
		node [shape=circle];
		_0_0[label="0_0"];
		_0_2[label="0_2"];

		node [shape=doublecircle];
		_0_3[label="0_3"];

		_0_1 -> _0_2 [label="--color= (0)"];
		_0_2 -> _0_3 [label="{{{ ls \"x\" \\ y }}}"];
	}
	_1 -> _2 [label="git \"the \\\"stupid\\\"\\ttracker's \\u{1b}\\u{7f} é\" (0)"];
	_1 -> _4 [label="*"];
	_2 -> _0_1 [style="dashed"];
	_0_3 -> _3 [style="dashed"];
	_2 -> _2 [label="a\\ (2)"];
	_4 -> _3 [label="{{{ echo } }}}compadd"];
}
-/
#guard_msgs in
#eval IO.print (emitDfa ⟨exMain, [exSub]⟩ 0)

-- the reader on the example returns `expectedStmts` (proved in general in `Proofs/DotEmit.lean`)
#guard toString (repr (parse (emitDfa ⟨exMain, [exSub]⟩ 1)))
    == toString (repr (some ("dfa", expectedStmts ⟨exMain, [exSub]⟩ 1)))

end Complgen.Dot
