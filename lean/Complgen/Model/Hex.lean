/- Hex transport encoding of the line protocol: lower-case hex of the UTF-8 bytes, `e` for the
empty string, `-` for "absent". -/
namespace Complgen.Hex

def hexDigit (n : Nat) : Char :=
  if n < 10 then Char.ofNat (48 + n) else Char.ofNat (87 + n)

def encodeBytes (b : ByteArray) : String :=
  if b.size == 0 then "e" else
  String.ofList (b.toList.flatMap fun x => [hexDigit (x.toNat / 16), hexDigit (x.toNat % 16)])

def encode (s : String) : String := encodeBytes s.toUTF8

def digitVal (c : Char) : Option Nat :=
  if '0' ≤ c ∧ c ≤ '9' then some (c.toNat - 48)
  else if 'a' ≤ c ∧ c ≤ 'f' then some (c.toNat - 87)
  else none

def decodeBytesAux : List Char → ByteArray → Option ByteArray
  | [], acc => some acc
  | [_], _ => none
  | a :: b :: rest, acc =>
    match digitVal a, digitVal b with
    | some x, some y => decodeBytesAux rest (acc.push (UInt8.ofNat (16 * x + y)))
    | _, _ => none

def decodeBytes (s : String) : Option ByteArray :=
  if s == "e" then some ByteArray.empty else decodeBytesAux s.toList ByteArray.empty

def decode (s : String) : Option String := do
  let b ← decodeBytes s
  String.fromUTF8? b

def decodeOpt (s : String) : Option (Option String) :=
  if s == "-" then some none else (decode s).map some

def encodeOpt : Option String → String
  | none => "-"
  | some s => encode s

end Complgen.Hex
