/-
The part of the Graphviz DOT language the `--dfa` / `--regex` dumps use, transcribed from the
language definition and graphviz's lexer (lib/cgraph/scan.l): identifiers, numerals, double-quoted
strings (inside which `\"` stands for a quote, a pair `\\` is kept as it is — so that `\\"` ends the
string — and backslash-newline is dropped), `//`, `/* */` and `#` comments, the punctuation
`{ } [ ] ; , = ->`, and the statements `digraph id { … }`, `subgraph id { … }`, `node/edge/graph
[attrs]`, `id = id`, `id [attrs]`, `id -> id -> … [attrs]`.

graphviz is not installed in the sandbox: this transcription is the judge of well-formedness (part
of the trusted base).  `parse` returns the statements in a canonical form, or the offset of the
first token that does not fit.
-/
import Complgen.Model.Hex
namespace Complgen.Dot

inductive Tok where
  | id (s : String)        -- identifier, numeral or the *value* of a quoted string
  | qid (s : String)       -- quoted string (value after lexing)
  | punct (s : String)
deriving Repr, BEq, Inhabited

def isIdStart (c : Char) : Bool := c.isAlpha || c = '_' || c.toNat ≥ 128
def isIdChar (c : Char) : Bool := c.isAlphanum || c = '_' || c.toNat ≥ 128

/-- body of a quoted string: returns the value and the rest after the closing quote -/
def lexQuoted : List Char → List Char → Option (List Char × List Char)
  | [], _ => none
  | '"' :: rest, acc => some (acc, rest)
  | '\\' :: '"' :: rest, acc => lexQuoted rest (acc ++ ['"'])
  | '\\' :: '\\' :: rest, acc => lexQuoted rest (acc ++ ['\\', '\\'])
  | '\\' :: '\n' :: rest, acc => lexQuoted rest acc
  | c :: rest, acc => lexQuoted rest (acc ++ [c])

def skipLine : List Char → List Char
  | [] => []
  | '\n' :: rest => rest
  | _ :: rest => skipLine rest

def skipBlock : List Char → Option (List Char)
  | [] => none
  | '*' :: '/' :: rest => some rest
  | _ :: rest => skipBlock rest

/-- the lexer; `none` = a character or an unterminated string / comment that fits no token -/
def lex : Nat → List Char → List Tok → Option (List Tok)
  | 0, _, _ => none
  | _ + 1, [], acc => some acc
  | fuel + 1, c :: rest, acc =>
    if c = ' ' || c = '\t' || c = '\n' || c = '\r' then lex fuel rest acc
    else if c = '/' then
      match rest with
      | '/' :: r => lex fuel (skipLine r) acc
      | '*' :: r => match skipBlock r with
        | some r' => lex fuel r' acc
        | none => none
      | _ => none
    else if c = '#' then lex fuel (skipLine rest) acc
    else if c = '"' then
      match lexQuoted rest [] with
      | some (v, r) => lex fuel r (acc ++ [.qid (String.ofList v)])
      | none => none
    else if c = '-' then
      match rest with
      | '>' :: r => lex fuel r (acc ++ [.punct "->"])
      | '-' :: r => lex fuel r (acc ++ [.punct "--"])
      | _ =>
        let num := rest.takeWhile fun x => x.isDigit || x = '.'
        if num.isEmpty then none else lex fuel (rest.drop num.length) (acc ++ [.id (String.ofList ('-' :: num))])
    else if c = '{' || c = '}' || c = '[' || c = ']' || c = ';' || c = ',' || c = '=' then
      lex fuel rest (acc ++ [.punct (String.singleton c)])
    else if isIdStart c then
      let w := (c :: rest).takeWhile isIdChar
      lex fuel (rest.drop (w.length - 1)) (acc ++ [.id (String.ofList w)])
    else if c.isDigit || c = '.' then
      let w := (c :: rest).takeWhile fun x => x.isDigit || x = '.'
      lex fuel (rest.drop (w.length - 1)) (acc ++ [.id (String.ofList w)])
    else none

/-! ### statements -/

structure Attr where
  key : String
  val : String
deriving Repr, BEq

inductive Stmt where
  | node (id : String) (attrs : List Attr)
  | edge (path : List String) (attrs : List Attr)
  | dflt (kind : String) (attrs : List Attr)      -- node / edge / graph [..]
  | assign (key val : String)
  | sub (name : String) (body : List Stmt)
deriving Repr, Inhabited

def tokVal : Tok → Option String
  | .id s => some s
  | .qid s => some s
  | .punct _ => none

/-- `[ a = b ; c = d , … ]*` -/
def attrList : Nat → List Tok → List Attr → Option (List Attr × List Tok)
  | 0, _, _ => none
  | fuel + 1, toks, acc =>
    match toks with
    | .punct "[" :: rest =>
      let rec inner : Nat → List Tok → List Attr → Option (List Attr × List Tok)
        | 0, _, _ => none
        | f + 1, ts, acc =>
          match ts with
          | .punct "]" :: r => some (acc, r)
          | .punct ";" :: r => inner f r acc
          | .punct "," :: r => inner f r acc
          | k :: .punct "=" :: v :: r =>
            match tokVal k, tokVal v with
            | some k, some v => inner f r (acc ++ [⟨k, v⟩])
            | _, _ => none
          | _ => none
      match inner fuel rest acc with
      | some (acc, r) => attrList fuel r acc
      | none => none
    | _ => some (acc, toks)

def keyword (s : String) : String := s.toLower

def edgePath : Nat → List Tok → List String → Option (List String × List Tok)
  | 0, _, _ => none
  | fuel + 1, toks, acc =>
    match toks with
    | .punct "->" :: t :: rest =>
      match tokVal t with
      | some v => edgePath fuel rest (acc ++ [v])
      | none => none
    | _ => some (acc, toks)

def stmts : Nat → List Tok → List Stmt → Option (List Stmt × List Tok)
  | 0, _, _ => none
  | fuel + 1, toks, acc =>
    match toks with
    | [] => some (acc, [])
    | .punct "}" :: _ => some (acc, toks)
    | .punct ";" :: rest => stmts fuel rest acc
    | .id kw :: rest =>
      if keyword kw == "subgraph" then
        let (name, rest) := match rest with
          | t :: r => match tokVal t with
            | some v => (v, r)
            | none => ("", rest)
          | [] => ("", rest)
        match rest with
        | .punct "{" :: r =>
          match stmts fuel r [] with
          | some (body, .punct "}" :: r') => stmts fuel r' (acc ++ [.sub name body])
          | _ => none
        | _ => none
      else if keyword kw == "node" || keyword kw == "edge" || keyword kw == "graph" then
        match rest with
        | .punct "[" :: _ =>
          match attrList fuel rest [] with
          | some (as, r) => stmts fuel r (acc ++ [.dflt (keyword kw) as])
          | none => none
        | _ => none
      else stmtFromId fuel kw rest acc
    | .qid s :: rest => stmtFromId fuel s rest acc
    | _ => none
where
  stmtFromId (fuel : Nat) (name : String) (rest : List Tok) (acc : List Stmt) : Option (List Stmt × List Tok) :=
    match rest with
    | .punct "=" :: v :: r =>
      match tokVal v with
      | some v => stmts fuel r (acc ++ [.assign name v])
      | none => none
    | .punct "->" :: _ =>
      match edgePath fuel rest [name] with
      | some (path, r) =>
        match attrList fuel r [] with
        | some (as, r') => stmts fuel r' (acc ++ [.edge path as])
        | none => none
      | none => none
    | _ =>
      match attrList fuel rest [] with
      | some (as, r) => stmts fuel r (acc ++ [.node name as])
      | none => none

def parse (src : String) : Option (String × List Stmt) :=
  let cs := src.toList
  match lex (cs.length + 1) cs [] with
  | none => none
  | some toks =>
    let toks := match toks with
      | .id s :: r => if keyword s == "strict" then r else toks
      | _ => toks
    match toks with
    | .id kw :: rest =>
      if keyword kw != "digraph" then none else
      let (name, rest) := match rest with
        | .punct "{" :: _ => ("", rest)
        | t :: r => ((tokVal t).getD "", r)
        | [] => ("", rest)
      match rest with
      | .punct "{" :: r =>
        match stmts (4 * toks.length + 8) r [] with
        | some (body, [.punct "}"]) => some (name, body)
        | _ => none
      | _ => none
    | _ => none

/-! ### what a label displays (escString): `\\` is a backslash, `\n` `\l` `\r` break the line,
any other backslash escape is a substitution (`\N` node name, `\G`, `\E`, …) -/

def display : List Char → List Char
  | [] => []
  | '\\' :: '\\' :: rest => '\\' :: display rest
  | '\\' :: 'n' :: rest => '\n' :: display rest
  | '\\' :: 'l' :: rest => '\n' :: display rest
  | '\\' :: 'r' :: rest => '\n' :: display rest
  | '\\' :: c :: rest => '�' :: c :: display rest
  | c :: rest => c :: display rest

/-! ### canonical dump: one item per statement, clusters flattened with their path -/

def attrOf (as : List Attr) (k : String) : String :=
  match (as.reverse.find? (·.key == k)) with
  | some a => Hex.encode (String.ofList (display a.val.toList))
  | none => "-"

partial def dump (path : String) (shape : String) : List Stmt → List String × String
  | [] => ([], shape)
  | st :: rest =>
    match st with
    | .node id as =>
      let (r, s) := dump path shape rest
      (s!"N {Hex.encode id} {attrOf as "label"} {shape} {path}" :: r, s)
    | .edge p as =>
      let pairs := (p.zip (p.drop 1)).map fun (a, b) => s!"E {Hex.encode a} {Hex.encode b} {attrOf as "label"} {attrOf as "style"} {path}"
      let (r, s) := dump path shape rest
      (pairs ++ r, s)
    | .dflt kind as =>
      let shape' := if kind == "node" then
          match as.reverse.find? (·.key == "shape") with
          | some a => a.val
          | none => shape
        else shape
      dump path shape' rest
    | .assign k v =>
      let (r, s) := dump path shape rest
      (s!"A {Hex.encode k} {Hex.encode (String.ofList (display v.toList))} {path}" :: r, s)
    | .sub name body =>
      let (inner, _) := dump (if path == "/" then s!"/{name}" else s!"{path}/{name}") shape body
      let (r, s) := dump path shape rest
      (s!"S {Hex.encode name} {path}" :: inner ++ r, s)

def dumpText (src : String) : String :=
  match parse src with
  | none => "invalid"
  | some (name, body) => s!"ok {Hex.encode name} | " ++ " | ".intercalate (dump "/" "ellipse" body).1

end Complgen.Dot
