/-
Model of check.rs `ValidGrammar::from_grammar` (with parse.rs `Grammar::get_specializations`),
pass by pass, over the tree representation.  Hash-map iteration orders of the Rust code do not
occur here because every place where they are used is order-insensitive *except* the search for
a definition cycle, which is modelled with the same roots-first strategy as the code and an
explicit order parameter for the rest.
-/
import Complgen.Model.Syntax
import Complgen.Gen.Tables
namespace Complgen.Check
open Complgen

inductive ErrClass where
  | missingCallVariants
  | invalidCommandName
  | varyingCommandNames
  | nonterminalDefinitionsCycle
  | duplicateNonterminalDefinition
  | unknownShell
  | nonCommandSpecialization
  | unboundedMatchable
  | conflictingDescriptions
  | subwordSpaces
  | ambiguousDFA
  | parseError
deriving DecidableEq, Repr, Inhabited, BEq

def ErrClass.name : ErrClass → String
  | .missingCallVariants => "MissingCallVariants"
  | .invalidCommandName => "InvalidCommandName"
  | .varyingCommandNames => "VaryingCommandNames"
  | .nonterminalDefinitionsCycle => "NonterminalDefinitionsCycle"
  | .duplicateNonterminalDefinition => "DuplicateNonterminalDefinition"
  | .unknownShell => "UnknownShell"
  | .nonCommandSpecialization => "NonCommandSpecialization"
  | .unboundedMatchable => "UnboundedMatchable"
  | .conflictingDescriptions => "ConflictingDescriptions"
  | .subwordSpaces => "SubwordSpaces"
  | .ambiguousDFA => "AmbiguousDFA"
  | .parseError => "ParseError"

/-- Result of a stage: a value, a diagnosed error (class + the spans the diagnostic shows), or a
crash of the real program (panic / stack exhaustion) with the site. -/
inductive Outcome (α : Type) where
  | ok (a : α)
  | err (c : ErrClass) (spans : List Span)
  | crash (site : String)
deriving Inhabited

abbrev AList (α : Type) := List (String × α)

def AList.get? {α} (m : AList α) (k : String) : Option α := (m.find? (·.1 == k)).map (·.2)
def AList.erase {α} (m : AList α) (k : String) : AList α := m.filter (·.1 != k)
def AList.contains {α} (m : AList α) (k : String) : Bool := m.any (·.1 == k)
/-- `HashMap::insert`: replaces the value of an existing key. -/
def AList.insert {α} (m : AList α) (k : String) (v : α) : AList α :=
  if m.contains k then m.map (fun p => if p.1 == k then (k, v) else p) else m ++ [(k, v)]

/-! ### distribute_descriptions -/

mutual
/-- `do_distribute_descriptions`: returns the new tree and what is left of the pending description. -/
def distr : Expr → Option String → Expr × Option String
  | .dd c d _, pend =>
    -- the child is processed with a fresh `Some(descr)`; the caller's pending description is untouched
    ((distr c (some d)).1, pend)
  | .term t none l s, some d => (.term t (some d) l s, none)
  | .term t d l s, pend => (.term t d l s, pend)
  | .nonterm n l s, pend => (.nonterm n l s, pend)
  | .cmd c a l s, pend => (.cmd c a l s, pend)
  | .seq cs s, pend => let (cs', p) := distrSeq cs pend; (.seq cs' s, p)
  | .alt cs s, pend =>
    let (cs', allSpent) := distrAlt cs pend
    (.alt cs' s, if allSpent then none else pend)
  | .opt c s, pend => let (c', p) := distr c pend; (.opt c' s, p)
  | .many1 c s, pend => let (c', p) := distr c pend; (.many1 c' s, p)
  | .sub c l s, pend => let (c', p) := distr c pend; (.sub c' l s, p)
  | .fb cs s, pend => let (cs', p) := distrSeq cs pend; (.fb cs' s, p)
/-- children share one mutable pending description, left to right -/
def distrSeq : ExprL → Option String → ExprL × Option String
  | .nil, pend => (.nil, pend)
  | .cons e es, pend =>
    let (e', p) := distr e pend
    let (es', p') := distrSeq es p
    (.cons e' es', p')
/-- each child gets its own copy of the pending description; the flag says whether every child
used its copy up (`all_spent`) -/
def distrAlt : ExprL → Option String → ExprL × Bool
  | .nil, _ => (.nil, true)
  | .cons e es, pend =>
    let (e', p) := distr e pend
    let (es', all) := distrAlt es pend
    (.cons e' es', p.isNone && all)
end

def distribute (e : Expr) : Expr := (distr e none).1

/-! ### specialisations -/

structure UserSpec where
  cmd : String
  span : Span
  used : Bool

def builtinCmd (sh : Shell) (name : String) : Option String :=
  (Gen.builtinTable.find? (fun r => r.1 == name && r.2.1 == sh)).map (·.2.2)

def plainDefs (g : Grammar) : List (String × Span × Expr) :=
  g.filterMap fun
    | .defn n s none e => some (n, s, e)
    | _ => none

def specDefs (g : Grammar) : List (String × Span × String × Span × Expr) :=
  g.filterMap fun
    | .defn n s (some (sh, ss)) e => some (n, s, sh, ss, e)
    | _ => none

/-- `Grammar::get_specializations` -/
def getSpecializations (g : Grammar) (target : Shell) :
    Outcome (AList UserSpec × AList String) :=
  let rec loop1 : List (String × Span × String × Span × Expr) → AList UserSpec →
      Outcome (AList UserSpec)
    | [], acc => .ok acc
    | (n, s, sh, ss, rhs) :: rest, acc =>
      match rhs with
      | .cmd c _ _ _ =>
        match Shell.ofName? sh with
        | none => .err .unknownShell [ss]
        | some shell =>
          if shell != target then loop1 rest acc
          else match acc.get? n with
            | some prev => .err .duplicateNonterminalDefinition [prev.span, s]
            | none => loop1 rest (acc ++ [(n, ⟨c, s, false⟩)])
      | e => .err .nonCommandSpecialization [e.span]
  match loop1 (specDefs g) [] with
  | .err c s => .err c s
  | .crash s => .crash s
  | .ok specs =>
    let rec loop2 : List (String × Span × Expr) → AList (String × Span) →
        Outcome (AList (String × Span))
      | [], acc => .ok acc
      | (n, s, rhs) :: rest, acc =>
        if !specs.contains n then loop2 rest acc
        else match rhs with
          | .cmd c _ _ _ =>
            match acc.get? n with
            | some prev => .err .duplicateNonterminalDefinition [prev.2, s]
            | none => loop2 rest (acc ++ [(n, (c, s))])
          | e => .err .nonCommandSpecialization [e.span]
    match loop2 (plainDefs g) [] with
    | .err c s => .err c s
    | .crash s => .crash s
    | .ok fbs => .ok (specs, fbs.map (fun p => (p.1, p.2.1)))

/-- mutable bookkeeping threaded through `specialize_nonterminals` / `resolve_nonterminals` -/
structure Book where
  specs : AList UserSpec
  unused : AList Span

mutual
/-- `specialize_nonterminals` -/
def specialize (sh : Shell) (fbs : AList String) (defined : List String) : Expr → Book → Expr × Book
  | .term t d l s, b => (.term t d l s, b)
  | .cmd c a l s, b => (.cmd c a l s, b)
  | .nonterm n l s, b =>
    let b := { b with unused := b.unused.erase n }
    let pick : Option (String × Bool × Book) :=
      match b.specs.get? n with
      | some sp => some (sp.cmd, true,
          { b with specs := b.specs.map (fun p => if p.1 == n then (p.1, { p.2 with used := true }) else p) })
      | none =>
        -- a plain definition overrides the built-in meaning; it is expanded later
        if defined.contains n then none else
        match builtinCmd sh n with
        | some c => some (c, true, b)
        | none =>
          match fbs.get? n with
          | some c => some (c, false, b)
          | none => none
    match pick with
    | none => (.nonterm n l s, b)
    | some (c, compadd, b) => (.cmd c (sh == .zsh && compadd) l s, b)
  | .sub c l s, b => let (c', b) := specialize sh fbs defined c b; (.sub c' l s, b)
  | .seq cs s, b => let (cs', b) := specializeL sh fbs defined cs b; (.seq cs' s, b)
  | .alt cs s, b => let (cs', b) := specializeL sh fbs defined cs b; (.alt cs' s, b)
  | .fb cs s, b => let (cs', b) := specializeL sh fbs defined cs b; (.fb cs' s, b)
  | .opt c s, b => let (c', b) := specialize sh fbs defined c b; (.opt c' s, b)
  | .many1 c s, b => let (c', b) := specialize sh fbs defined c b; (.many1 c' s, b)
  | .dd c d s, b => (.dd c d s, b)  -- `unreachable!()` in the code: erased by `distribute`
def specializeL (sh : Shell) (fbs : AList String) (defined : List String) : ExprL → Book → ExprL × Book
  | .nil, b => (.nil, b)
  | .cons e es, b =>
    let (e', b) := specialize sh fbs defined e b
    let (es', b) := specializeL sh fbs defined es b
    (.cons e' es', b)
end

mutual
/-- `do_get_nonterm_refs`: names with the span of their last occurrence -/
def refsAcc : Expr → AList Span → AList Span
  | .term .., acc => acc
  | .cmd .., acc => acc
  | .nonterm n _ s, acc => acc.insert n s
  | .sub c _ _, acc => refsAcc c acc
  | .seq cs _, acc => refsAccL cs acc
  | .alt cs _, acc => refsAccL cs acc
  | .fb cs _, acc => refsAccL cs acc
  | .opt c _, acc => refsAcc c acc
  | .many1 c _, acc => refsAcc c acc
  | .dd .., acc => acc
def refsAccL : ExprL → AList Span → AList Span
  | .nil, acc => acc
  | .cons e es, acc => refsAccL es (refsAcc e acc)
end

def refs (e : Expr) : AList Span := refsAcc e []

mutual
/-- `resolve_nonterminals` (one level: definitions are substituted as they currently are) -/
def resolve (defs : AList (Span × Expr)) : Expr → AList Span → Expr × AList Span
  | .term t d l s, u => (.term t d l s, u)
  | .cmd c a l s, u => (.cmd c a l s, u)
  | .nonterm n l s, u =>
    match defs.get? n with
    | some (_, rhs) => (rhs, u.erase n)
    | none => (.nonterm n l s, u)
  | .sub c l s, u => let (c', u) := resolve defs c u; (.sub c' l s, u)
  | .seq cs s, u => let (cs', u) := resolveL defs cs u; (.seq cs' s, u)
  | .alt cs s, u => let (cs', u) := resolveL defs cs u; (.alt cs' s, u)
  | .fb cs s, u => let (cs', u) := resolveL defs cs u; (.fb cs' s, u)
  | .opt c s, u => let (c', u) := resolve defs c u; (.opt c' s, u)
  | .many1 c s, u => let (c', u) := resolve defs c u; (.many1 c' s, u)
  | .dd c d s, u => (.dd c d s, u)
def resolveL (defs : AList (Span × Expr)) : ExprL → AList Span → ExprL × AList Span
  | .nil, u => (.nil, u)
  | .cons e es, u =>
    let (e', u) := resolve defs e u
    let (es', u) := resolveL defs es u
    (.cons e' es', u)
end

/-! ### resolution order with cycle detection (`get_nonterminals_resolution_order`) -/

abbrev Graph := AList (AList Span)

def depGraph (defs : AList (Span × Expr)) : Graph :=
  defs.map fun (n, _, rhs) => (n, (refs rhs).filter (fun p => defs.contains p.1))

def roots (g : Graph) : List String :=
  (g.map (·.1)).filter fun v => !g.any (fun (_, deps) => deps.contains v)

structure DfsState where
  visited : List String
  result : List String

/-- `traverse_nonterminal_dependencies_dfs`; `path` holds (name, span) pairs. Fuel bounds the
recursion depth by the number of vertices + 1 (a path never repeats a vertex). -/
def dfs (g : Graph) : Nat → String → List (String × Span) → DfsState →
    Except (List Span) DfsState
  | 0, _, _, st => .ok st
  | fuel + 1, v, path, st =>
    let st := { st with visited := v :: st.visited }
    let children := (g.get? v).getD []
    let rec go : List (String × Span) → DfsState → Except (List Span) DfsState
      | [], st => .ok st
      | (c, sp) :: rest, st =>
        if path.any (·.1 == c) then .error ((path ++ [(v, sp)]).map (·.2))
        else if st.visited.contains c then go rest st
        else
          match dfs g fuel c (path ++ [(c, sp)]) st with
          | .error e => .error e
          | .ok st => go rest { st with result := st.result ++ [c] }
    go children st

/-- Returns the order in which definitions get resolved (dependencies first), restricted like
the code to definitions that depend on something; or the spans of a cycle. -/
def resolutionOrder (defs : AList (Span × Expr)) : Except (List Span) (List String) :=
  if defs.isEmpty then .ok [] else
  let g := depGraph defs
  let rs := roots g
  let n := g.length + 1
  -- roots first, then every vertex not visited yet (those can only exist if there is a cycle)
  let rec loop : List String → DfsState → Except (List Span) DfsState
    | [], st => .ok st
    | v :: rest, st =>
      if st.visited.contains v then loop rest st else
      let sp := ((defs.get? v).map (·.1)).getD default
      match dfs g n v [(v, sp)] st with
      | .error e => .error e
      | .ok st => loop rest { st with result := st.result ++ [v] }
  match loop (rs ++ (g.map (·.1)).filter (fun v => !rs.contains v)) ⟨[], []⟩ with
  | .error e => .error e
  | .ok st => .ok (st.result.filter fun v => !((g.get? v).getD []).isEmpty)

/-! ### check_subword_spaces -/

def headOf : Expr → Expr
  | .seq (.cons e _) _ => headOf e
  | .sub c _ _ => headOf c
  | e => e

mutual
def tailOf : Expr → Expr
  | .seq cs s => tailOfL cs (.seq cs s)
  | .sub c _ _ => tailOf c
  | e => e
def tailOfL : ExprL → Expr → Expr
  | .nil, dflt => dflt
  | .cons e .nil, _ => tailOf e
  | .cons _ es, dflt => tailOfL es dflt
end

def isTerm : Expr → Option Span
  | .term _ _ _ s => some s
  | _ => none

inductive SpacesResult where
  | fine
  | bad (l r : Span) (trace : List Span)
  | overflow

mutual
/-- `do_check_subword_spaces`; `fuel` stands for the native stack: the real recursion follows
definitions without any cycle guard. -/
def spaces (defs : AList (Span × Expr)) : Nat → Expr → List Span → Bool → SpacesResult
  | 0, _, _, _ => .overflow
  | fuel + 1, e, trace, inSub =>
    match e with
    | .seq cs _ =>
      match spacesL defs fuel cs trace inSub with
      | .fine => if inSub then adjacent cs trace else .fine
      | r => r
    | .term .. => .fine
    | .cmd .. => .fine
    | .nonterm n _ s =>
      match defs.get? n with
      | none => .fine
      | some (_, rhs) => spaces defs fuel rhs (trace ++ [s]) inSub
    | .sub c _ _ => spaces defs fuel c trace true
    | .alt cs _ => spacesL defs fuel cs trace inSub
    | .fb cs _ => spacesL defs fuel cs trace inSub
    | .opt c _ => spaces defs fuel c trace inSub
    | .many1 c _ => spaces defs fuel c trace inSub
    | .dd .. => .fine
def spacesL (defs : AList (Span × Expr)) : Nat → ExprL → List Span → Bool → SpacesResult
  | 0, _, _, _ => .overflow
  | _ + 1, .nil, _, _ => .fine
  | fuel + 1, .cons e es, trace, inSub =>
    match spaces defs fuel e trace inSub with
    | .fine => spacesL defs fuel es trace inSub
    | r => r
/-- the `windows(2)` loop -/
def adjacent : ExprL → List Span → SpacesResult
  | .cons a (.cons b rest), trace =>
    match isTerm (tailOf a), isTerm (headOf b) with
    | some l, some r => .bad l r trace
    | _, _ => adjacent (.cons b rest) trace
  | _, _ => .fine
end

/-! ### flatten / collapse_subwords / propagate_fallback_levels -/

mutual
/-- `flatten_expr`: removes every `Subword` node -/
def flatten : Expr → Expr
  | .sub c _ _ => flatten c
  | .seq cs s => .seq (flattenL cs) s
  | .alt cs s => .alt (flattenL cs) s
  | .fb cs s => .fb (flattenL cs) s
  | .opt c s => .opt (flatten c) s
  | .many1 c s => .many1 (flatten c) s
  | .dd c d s => .dd (flatten c) d s
  | e => e
def flattenL : ExprL → ExprL
  | .nil => .nil
  | .cons e es => .cons (flatten e) (flattenL es)
end

mutual
/-- `collapse_subwords`: keeps the topmost `Subword`, flattens below it -/
def collapse : Expr → Expr
  | .sub c l s => .sub (flatten c) l s
  | .seq cs s => .seq (collapseL cs) s
  | .alt cs s => .alt (collapseL cs) s
  | .fb cs s => .fb (collapseL cs) s
  | .opt c s => .opt (collapse c) s
  | .many1 c s => .many1 (collapse c) s
  | .dd c d s => .dd (collapse c) d s
  | e => e
def collapseL : ExprL → ExprL
  | .nil => .nil
  | .cons e es => .cons (collapse e) (collapseL es)
end

mutual
/-- `do_propagate_fallback_levels`: every leaf and every subword gets the index of the branch of
the innermost enclosing `||` -/
def propagate : Expr → Nat → Expr
  | .term t d _ s, lvl => .term t d lvl s
  | .fb cs s, _ => .fb (propagateFb cs 0) s
  | .nonterm n _ s, lvl => .nonterm n lvl s
  | .cmd c a _ s, lvl => .cmd c a lvl s
  | .seq cs s, lvl => .seq (propagateL cs lvl) s
  | .alt cs s, lvl => .alt (propagateL cs lvl) s
  | .opt c s, lvl => .opt (propagate c lvl) s
  | .many1 c s, lvl => .many1 (propagate c lvl) s
  | .sub c _ s, lvl => .sub (propagate c lvl) lvl s
  | .dd c d s, _ => .dd c d s
def propagateL : ExprL → Nat → ExprL
  | .nil, _ => .nil
  | .cons e es, lvl => .cons (propagate e lvl) (propagateL es lvl)
def propagateFb : ExprL → Nat → ExprL
  | .nil, _ => .nil
  | .cons e es, i => .cons (propagate e i) (propagateFb es (i + 1))
end

/-! ### from_grammar -/

structure Valid where
  command : String
  expr : Expr
  undefined : AList Span
  unused : AList Span
  unusedSpecs : AList Span

def dedupNames : List (String × Span) → List String → List (String × Span)
  | [], _ => []
  | (n, s) :: rest, seen => if seen.contains n then dedupNames rest seen else (n, s) :: dedupNames rest (n :: seen)

def collectPlain : List (String × Span × Expr) → AList (Span × Expr) → Outcome (AList (Span × Expr))
  | [], acc => .ok acc
  | (n, s, e) :: rest, acc =>
    match acc.get? n with
    | some (prev, _) => .err .duplicateNonterminalDefinition [prev, s]
    | none => collectPlain rest (acc ++ [(n, (s, e))])

def stackFuel : Nat := 20000

/-- the call variants: (command name, its span, expression) -/
def callsOf (g : Grammar) : List (String × Span × Expr) :=
  g.filterMap fun
    | .call n s e => some (n, s, e)
    | _ => none

def callNameSpans (g : Grammar) : List (String × Span) := (callsOf g).map fun x => (x.1, x.2.1)

/-- the command-name checks of `from_grammar`: at least one call variant, one command name, no `/` -/
def commandOf (g : Grammar) : Outcome String :=
  if (callsOf g).isEmpty then .err .missingCallVariants [] else
  let cmds := dedupNames (callNameSpans g) []
  if cmds.length > 1 then .err .varyingCommandNames (cmds.map (·.2)) else
  match cmds with
  | [] => .err .missingCallVariants []
  | (command, commandSpan) :: _ =>
  if command.toList.contains '/' then .err .invalidCommandName [commandSpan] else .ok command

/-- the call variants joined into one expression -/
def topExpr (g : Grammar) : Expr :=
  match callsOf g with
  | [(_, _, e)] => e
  | calls => .alt (ExprL.ofList (calls.map (·.2.2))) ((calls.head?.map (·.2.2.span)).getD default)

/-- one step of the specialisation of the definition bodies (the loop over `nonterminal_definitions`) -/
def specStep (sh : Shell) (fbs : AList String) (defined : List String)
    (acc : AList (Span × Expr) × Book) (x : String × Span × Expr) : AList (Span × Expr) × Book :=
  ((acc.1 ++ [(x.1, (x.2.1, (specialize sh fbs defined x.2.2 acc.2).1))]), (specialize sh fbs defined x.2.2 acc.2).2)

/-- one step of the dependency-ordered expansion of the definitions -/
def resStep (acc : AList (Span × Expr) × AList Span) (n : String) : AList (Span × Expr) × AList Span :=
  match AList.get? acc.1 n with
  | none => acc
  | some (s, e) =>
    ((acc.1.map fun p => if p.1 == n then (n, (s, (resolve acc.1 e acc.2).1)) else p), (resolve acc.1 e acc.2).2)

/-- everything after the definitions and specialisations have been collected: specialisation,
dependency-ordered expansion, the spaces check, collapsing of words, `||` levels, warnings -/
def finishValidate (g : Grammar) (sh : Shell) (command : String) (defs0 : AList (Span × Expr))
    (specs : AList UserSpec) (fbs : AList String) : Outcome Valid :=
  let defsD := defs0.map fun x => (x.1, x.2.1, distribute x.2.2)
  let expr0 := distribute (topExpr g)
  let book0 : Book := ⟨specs, defsD.map fun x => (x.1, x.2.1)⟩
  let defined := defsD.map (·.1)
  let r1 := defsD.foldl (specStep sh fbs defined) ([], book0)
  let r2 := specialize sh fbs defined expr0 r1.2
  let unusedSpecs := r2.2.specs.filterMap fun (n, sp) => if sp.used then none else some (n, sp.span)
  match resolutionOrder r1.1 with
  | .error spans => .err .nonterminalDefinitionsCycle spans
  | .ok order =>
  let r3 := order.foldl resStep (r1.1, r2.2.unused)
  match spaces r3.1 stackFuel r2.1 [] false with
  | .overflow => .crash "check_subword_spaces: unbounded recursion through cyclic definitions"
  | .bad l r trace => .err .subwordSpaces (l :: r :: trace)
  | .fine =>
  let r4 := resolve r3.1 r2.1 r3.2
  let expr := propagate (collapse r4.1) 0
  .ok { command, expr, undefined := refs expr, unused := r4.2, unusedSpecs }

/-- `ValidGrammar::from_grammar`, in the order the code runs its checks -/
def validate (g : Grammar) (sh : Shell) : Outcome Valid :=
  match commandOf g with
  | .err c s => .err c s
  | .crash s => .crash s
  | .ok command =>
  match collectPlain (plainDefs g) [] with
  | .err c s => .err c s
  | .crash s => .crash s
  | .ok defs =>
  match getSpecializations g sh with
  | .err c s => .err c s
  | .crash s => .crash s
  | .ok (specs, fbs) => finishValidate g sh command defs specs fbs

end Complgen.Check
