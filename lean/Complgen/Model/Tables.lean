/-
Model of the lookup tables every emitted bash script embeds (tables.rs `get_lookup_tables`,
`get_match_transitions`, `get_completion_transitions`; the `DFA` getters of dfa.rs they call; the data
lines bash.rs writes from them, and the within-word tables bash.rs builds itself:
`subword_transitions`, `subword_transitions_level_N`).

`ofAuto a cmds subId` is what the script contains for ONE automaton (bash: `ARRAY_START = 0`):

* `literals` — `get_all_literals`: the `(literal, description)` pairs of the WHOLE input table
  `self.inputs.elems()` (also inputs no transition carries) collected into an `IndexSet` (first
  occurrences; `("a", None)` and `("a", Some(""))` are different there), `sort_unstable_by` the key
  `(byte length, text)`, reversed; ids = positions.  The sort of the model is the stable one: the
  code's `sort_unstable_by` is an insertion sort (hence stable) up to 20 elements; beyond that the
  relative order of two pairs with the same text (different descriptions) is whatever the standard
  library's quicksort leaves — observed on real scripts with more than 20 pairs: the ids inside a
  group of equal texts are permuted with respect to the stable order.  This is the only place where
  `ofAuto` can differ from a real script; `ofAutoWith` takes the order of the pairs as a parameter
  (every theorem holds for every order), and `canonLits` renames each literal id to the first id with
  the same text (a bash script does not contain the descriptions), which makes the comparison
  independent of that order.
* the id of a literal transition — `id_from_literal_description`, a `HashMap` collected from
  `((literal, description.unwrap_or("")), id)`: when two entries collide (`None` / `Some("")`) the
  later one wins: `litId` = the LAST position with that key.
* rows — `BTreeMap<StateId, BTreeMap<Id, StateId>>`: states ascending, states without an entry have no
  row, ids ascending, a later `(id, to)` of the same id replaces the earlier one (`collect`).
* `star` — a `Vec` in the iteration order of the transitions; `subTrans` rows — states ascending
  (`get_all_states` is a `RoaringBitmap`), the entries of a row are a `Vec` in iteration order.
* level tables — `vec![…; max + 1]` of `BTreeMap<StateId, RoaringBitmap>` (ids ascending, a set) for
  literals and commands, of `BTreeMap<StateId, Vec<usize>>` (push order, repetitions kept) for
  within-word automata.
* `maxLevel` — `get_max_fallback_level().unwrap_or(ARRAY_START)`: the maximum over the inputs that
  TRANSITIONS carry (`iter_inputs` walks the transitions), literal, within-word, command and compadd.

`Inp::Compadd`: bash.rs calls `get_lookup_tables` with `needs_compadds_code = false` and never writes a
compadd table, so a compadd transition leaves no trace in a bash script except (a) its command text
is numbered by `get_commands` (and gets a `_cmd_N` function) and (b) its level counts for `maxLevel`.
The model does exactly that.

`needs_*_code` flags: when a flag is off the corresponding lines are absent from the script, and then
the automaton has no such transition (for within-word automata the flag is global, a within-word
automaton without commands gets empty command tables): the tables read from the script are the same,
so the model has no flags.  It always lists `max + 1` levels (as the verification's extractor does).

Iteration order: the real `transitions` is an `IndexMap<StateId, IndexMap<InpId, StateId>>`, iterated by
`from` in first-insertion order; `iterTrans` regroups the flat `Auto.trans` that way (identity when the
list is already grouped, as the lists read from the real library are).  A transition whose input
index is out of range (the code would panic in `get_input`) is dropped.
-/
import Complgen.Model.Dfa
import Complgen.Model.BashRt
namespace Complgen.Tables
open Complgen BashRt

/-- `IndexSet` collected from a sequence: first occurrences, in order -/
def firstOcc {α} [DecidableEq α] (l : List α) : List α :=
  l.foldl (fun acc x => if x ∈ acc then acc else acc ++ [x]) []

/-- `DFA::iter_transitions`: by `from` in first-insertion order, then insertion order -/
def iterTrans (a : Auto) : List (Nat × Nat × Nat) :=
  (firstOcc (a.trans.map (·.1))).flatMap fun q => a.trans.filter (·.1 == q)

/-- the transitions with their input looked up (`get_input`), in iteration order -/
def edges (a : Auto) : List (Nat × Inp × Nat) :=
  (iterTrans a).filterMap fun e => (a.inputs[e.2.1]?).map fun x => (e.1, x, e.2.2)

/-! ### literals -/

def litOfInp : Inp → Option (String × Option String)
  | .lit t d _ => some (t, d)
  | _ => none

/-- lexicographic order of byte strings (`str::cmp`) -/
def bytesLt : List UInt8 → List UInt8 → Bool
  | _, [] => false
  | [], _ :: _ => true
  | x :: xs, y :: ys => x < y || (x == y && bytesLt xs ys)

/-- `(left.len(), left) <= (right.len(), right)` -/
def keyLe (x y : String × Option String) : Bool :=
  let bx := x.1.toUTF8.toList
  let by' := y.1.toUTF8.toList
  bx.length < by'.length || (bx.length == by'.length && !bytesLt by' bx)

/-- `get_top_level_literals_decreasing_length` -/
def sortedLits (a : Auto) : List (String × Option String) :=
  ((firstOcc (a.inputs.filterMap litOfInp)).mergeSort keyLe).reverse

/-- index of the last element satisfying `p` -/
def lastIdx {α} (p : α → Bool) : List α → Option Nat
  | [] => none
  | x :: xs =>
    match lastIdx p xs with
    | some k => some (k + 1)
    | none => if p x then some 0 else none

/-- `id_from_literal_description.get(&(literal, description.unwrap_or("")))` -/
def litId (lits : List (String × Option String)) (t : String) (d : Option String) : Option Nat :=
  lastIdx (fun e => e.1 == t && e.2.getD "" == d.getD "") lits

/-- `id_from_cmd.get_index_of(cmd)` -/
def cmdId (cmds : List String) (c : String) : Option Nat :=
  if c ∈ cmds then some (cmds.idxOf c) else none

/-! ### `BTreeMap<Id, StateId>` collected from pairs -/

def bInsert (k v : Nat) : List (Nat × Nat) → List (Nat × Nat)
  | [] => [(k, v)]
  | (k', v') :: r =>
    if k < k' then (k, v) :: (k', v') :: r
    else if k = k' then (k, v) :: r
    else (k', v') :: bInsert k v r

def bOfList (l : List (Nat × Nat)) : List (Nat × Nat) :=
  l.foldl (fun m p => bInsert p.1 p.2 m) []

/-- rows keyed by state, states ascending, empty rows absent -/
def rowsOf {β} (states : List Nat) (f : Nat → List β) : List (Nat × List β) :=
  states.filterMap fun q => if (f q).isEmpty then none else some (q, f q)

def levelsOf (n : Nat) (states : List Nat) (f : Nat → Nat → List Nat) : List (List LevelRow) :=
  (List.range n).map fun lvl => rowsOf states (f lvl)

/-! ### what one transition contributes -/

/-- `(id, to)` of a literal transition out of `q` -/
def litPair (lits : List (String × Option String)) (q : Nat) (e : Nat × Inp × Nat) : Option (Nat × Nat) :=
  if e.1 = q then
    match e.2.1 with
    | .lit t d _ => (litId lits t d).map fun k => (k, e.2.2)
    | _ => none
  else none

/-- `(id, to)` of a command transition out of `q` (`Inp::Command` only) -/
def cmdPair (cmds : List String) (q : Nat) (e : Nat × Inp × Nat) : Option (Nat × Nat) :=
  if e.1 = q then
    match e.2.1 with
    | .cmd c _ => (cmdId cmds c).map fun k => (k, e.2.2)
    | _ => none
  else none

def subPair (subId : Nat → Option Nat) (q : Nat) (e : Nat × Inp × Nat) : Option (Nat × Nat) :=
  if e.1 = q then
    match e.2.1 with
    | .sub k _ => (subId k).map fun j => (j, e.2.2)
    | _ => none
  else none

def starPair (e : Nat × Inp × Nat) : Option (Nat × Nat) :=
  match e.2.1 with
  | .star => some (e.1, e.2.2)
  | _ => none

/-- the id a transition out of `q` adds to the level table `lvl` -/
def litAt (lits : List (String × Option String)) (lvl q : Nat) (e : Nat × Inp × Nat) : Option Nat :=
  if e.1 = q then
    match e.2.1 with
    | .lit t d l => if l = lvl then litId lits t d else none
    | _ => none
  else none

def cmdAt (cmds : List String) (lvl q : Nat) (e : Nat × Inp × Nat) : Option Nat :=
  if e.1 = q then
    match e.2.1 with
    | .cmd c l => if l = lvl then cmdId cmds c else none
    | _ => none
  else none

def subAt (subId : Nat → Option Nat) (lvl q : Nat) (e : Nat × Inp × Nat) : Option Nat :=
  if e.1 = q then
    match e.2.1 with
    | .sub k l => if l = lvl then subId k else none
    | _ => none
  else none

/-- `get_max_fallback_level().unwrap_or(0)` -/
def maxLevel (E : List (Nat × Inp × Nat)) : Nat :=
  (E.filterMap fun e => e.2.1.level?).foldl max 0

/-- **The tables of one automaton.**  `cmds`: all command texts of the whole DFA in the order of
`get_commands`; `subId`: the number bash.rs gives to the within-word automaton `k` of the pool
(`get_subwords(0)`); for a within-word automaton itself pass `fun _ => none` (bash.rs writes no
within-word tables inside a within-word function). -/
def ofAutoWith (lits : List (String × Option String)) (a : Auto) (cmds : List String)
    (subId : Nat → Option Nat) : Tables :=
  let E := edges a
  let st := normSet (E.map (·.1))
  let mx := maxLevel E
  { literals := lits.map (·.1)
    litTrans := rowsOf st fun q => bOfList (E.filterMap (litPair lits q))
    cmdTrans := rowsOf st fun q => bOfList (E.filterMap (cmdPair cmds q))
    star := E.filterMap starPair
    subTrans := rowsOf st fun q => E.filterMap (subPair subId q)
    litLevels := levelsOf (mx + 1) st fun lvl q => normSet (E.filterMap (litAt lits lvl q))
    cmdLevels := levelsOf (mx + 1) st fun lvl q => normSet (E.filterMap (cmdAt cmds lvl q))
    subLevels := levelsOf (mx + 1) st fun lvl q => E.filterMap (subAt subId lvl q)
    maxLevel := mx }

def ofAuto (a : Auto) (cmds : List String) (subId : Nat → Option Nat) : Tables :=
  ofAutoWith (sortedLits a) a cmds subId

/-- rename every literal id to the first id with the same text (rows re-collected) -/
def canonId (lits : List String) (k : Nat) : Nat :=
  match lits[k]? with
  | some t => lits.idxOf t
  | none => k

def canonLits (T : Tables) : Tables :=
  { T with
    litTrans := T.litTrans.map fun r => (r.1, bOfList (r.2.map fun p => (canonId T.literals p.1, p.2)))
    litLevels := T.litLevels.map fun rows => rows.map fun r => (r.1, normSet (r.2.map (canonId T.literals))) }

/-! ### the global numberings -/

def cmdOfInp : Inp → Option String
  | .cmd c _ => some c
  | .compadd c _ => some c
  | _ => none

/-- `DFA::get_commands`: walk the inputs of the transitions of the main automaton; a command or compadd
adds its text, a within-word automaton adds the command / compadd texts of ITS transitions. -/
def commands (d : Dfa) : List String :=
  firstOcc ((edges d.main).flatMap fun e =>
    match e.2.1 with
    | .cmd c _ => [c]
    | .compadd c _ => [c]
    | .sub k _ => ((d.subs[k]?.map edges).getD []).filterMap fun e' => cmdOfInp e'.2.1
    | _ => [])

/-- `DFA::get_subwords(0)`: pool indices of the within-word automata in the order of their first
transition; the id is the position. -/
def subOrder (a : Auto) : List Nat :=
  firstOcc ((edges a).filterMap fun e => match e.2.1 with | .sub k _ => some k | _ => none)

def subIdOf (order : List Nat) (k : Nat) : Option Nat :=
  if k ∈ order then some (order.idxOf k) else none

/-- **The tables of a whole script**: the main automaton and the within-word automata with the ids of
their `_<cmd>_subword_<id>` functions (here listed by id; the real file lists the functions by shape
hash, `Script.sub` looks them up by id).  `out`: what each command function prints, not part of the
tables. -/
def ofDfa (d : Dfa) (out : Nat → List String := fun _ => []) : Script :=
  let cmds := commands d
  let order := subOrder d.main
  { main := ofAuto d.main cmds (subIdOf order)
    subs := (order.zipIdx).filterMap fun p =>
      (d.subs[p.1]?).map fun s => (p.2, ofAuto s cmds fun _ => none)
    out := out }

/-! ### reading the automaton back from the tables -/

/-- what a bash script knows of an input: the text of a literal (not its description), the text of a
command, the id of a within-word function, "any word" -/
inductive Label where
  | lit (txt : String)
  | cmd (c : String)
  | sub (id : Nat)
  | star
deriving DecidableEq, Repr

/-- the label and level under which the tables record an input; `none`: not recorded (compadd; a
within-word automaton without a number) -/
def labelOf (subId : Nat → Option Nat) : Inp → Option (Label × Option Nat)
  | .lit t _ l => some (.lit t, some l)
  | .cmd c l => some (.cmd c, some l)
  | .sub k l => (subId k).map fun j => (.sub j, some l)
  | .star => some (.star, none)
  | .compadd _ _ => none

/-- transitions `(from, label, level, to)` of one kind read from a transition table, its level table
and the naming of the ids -/
def kindTransitions (name : Nat → Option Label) (tr : List Row) (lv : List (List LevelRow)) :
    List (Nat × Label × Option Nat × Nat) :=
  (List.range lv.length).flatMap fun lvl =>
    (tr.map (·.1)).flatMap fun q =>
      (idsAt lv lvl q).filterMap fun k =>
        match name k, (rowOf tr q).bind (toOf · k) with
        | some lab, some t => some (q, lab, some lvl, t)
        | _, _ => none

/-- **all labelled transitions a script's tables describe** (`cmds`: the texts of the command
functions `_<cmd>_cmd_<id>` by id) -/
def transitionsOf (T : Tables) (cmds : List String) : List (Nat × Label × Option Nat × Nat) :=
  kindTransitions (fun k => T.literals[k]?.map Label.lit) T.litTrans T.litLevels ++
  kindTransitions (fun k => cmds[k]?.map Label.cmd) T.cmdTrans T.cmdLevels ++
  kindTransitions (fun k => some (Label.sub k)) T.subTrans T.subLevels ++
  T.star.map fun p => (p.1, Label.star, none, p.2)

/-! ### the wire form (inverse of `parseTables` of Main.lean) -/

def wirePairs (l : List (Nat × Nat)) : String :=
  ",".intercalate (l.map fun p => s!"{p.1}>{p.2}")

def wireRows (l : List Row) : String :=
  "/".intercalate (l.map fun r => s!"{r.1}:{wirePairs r.2}")

def wireLevels (l : List (List LevelRow)) : String :=
  "|".intercalate (l.map fun rows =>
    "/".intercalate (rows.map fun r => s!"{r.1}:{".".intercalate (r.2.map toString)}"))

def wire (T : Tables) : String :=
  s!"lits={",".intercalate (T.literals.map Hex.encode)};lt={wireRows T.litTrans};ct={wireRows T.cmdTrans};st={wirePairs T.star};wt={wireRows T.subTrans};ll={wireLevels T.litLevels};cl={wireLevels T.cmdLevels};wl={wireLevels T.subLevels};max={T.maxLevel}"

/-- The verification's extractor lists the entries of a `command_transitions` / `subword_transitions`
row in the order in which bash iterates over the keys of an associative array (`keyRank`, obtained from
bash), not in the order of the script line: a stable sort of each row by that rank. -/
def insertByRank (rank : Nat → Nat) (p : Nat × Nat) : List (Nat × Nat) → List (Nat × Nat)
  | [] => [p]
  | x :: xs => if rank p.1 < rank x.1 then p :: x :: xs else x :: insertByRank rank p xs

def assocOrder (rank : Nat → Nat) (T : Tables) : Tables :=
  let srt := fun (l : List (Nat × Nat)) => l.foldl (fun acc p => insertByRank rank p acc) []
  { T with cmdTrans := T.cmdTrans.map fun r => (r.1, srt r.2)
           subTrans := T.subTrans.map fun r => (r.1, srt r.2) }

/-! ### the example of `example_tables.txt` (`cmd a "d" [b a]... --o=(x|<Y>) {{{ echo hi }}};`) -/

def exampleMain : Auto :=
  { start := 0, acc := [4],
    inputs := [.lit "a" (some "d") 0, .lit "b" none 0, .lit "a" none 0, .sub 0 0, .cmd "echo hi" 0],
    trans := [(0, 0, 1), (1, 1, 2), (1, 3, 3), (3, 4, 4), (2, 2, 1)] }

def exampleSub : Auto :=
  { start := 0, acc := [2],
    inputs := [.lit "--o=" none 0, .lit "x" none 0, .star],
    trans := [(0, 0, 1), (1, 1, 2), (1, 2, 2)] }

def exampleDfa : Dfa := { main := exampleMain, subs := [exampleSub] }

def exampleLines : List String :=
  let S := ofDfa exampleDfa
  s!"main: {wire S.main}" :: S.subs.map fun p => s!"sub {p.1}: {wire p.2}"

/-- info: true -/
#guard_msgs in
#eval exampleLines ==
  ["main: lits=62,61,61;lt=0:2>1/1:0>2/2:1>1;ct=3:0>4;st=;wt=1:0>3;ll=0:2/1:0/2:1;cl=3:0;wl=1:0;max=0",
   "sub 0: lits=2d2d6f3d,78;lt=0:0>1/1:1>2;ct=;st=1>2;wt=;ll=0:0/1:1;cl=;wl=;max=0"]

end Complgen.Tables
