/-
Model of parse.rs: the nom parser of `.usage` files, function by function, over `List Char` with
the position nom_locate tracks (line, byte column).  Every `while let Ok(..)` loop and every
recursive descent takes fuel; `Grammar.parse` supplies enough for the input length (the driver
reports when it does not — it never happens on the explored inputs, and `Props/C05.lean` states
the round-trip theorems for results `some`).

Traceability (parse.rs → here): comment/form_feed/blanks/multiblanks0/1 → `mb0Aux`, `mb0`, `mb1`;
terminal → `terminalLoop`, `terminal`; description* → `descrLoop`, `description`; nonterm,
nonterm_specialization, triple_bracket_command → same names; HumanSpan::from_range / from_machine →
`fromRange`, `fromMachine`; unary_expr … fallback_expr → the mutual block; call_variant,
nonterm_def_statement, statement, grammar, Grammar::parse → same names.
-/
import Complgen.Model.Check
import Complgen.Gen.Tables
namespace Complgen.Parse
open Complgen

/-- the rest of the input with the position of its first character (`LocatedSpan`) -/
structure PState where
  rest : List Char
  line : Nat
  col : Nat
deriving Repr, Inhabited

def PState.init (s : List Char) : PState := ⟨s, 1, 1⟩

def PState.adv : PState → Nat → PState
  | s, 0 => s
  | ⟨[], l, c⟩, _ + 1 => ⟨[], l, c⟩
  | ⟨ch :: cs, l, c⟩, n + 1 =>
    if ch = '\n' then PState.adv ⟨cs, l + 1, 1⟩ n else PState.adv ⟨cs, l, c + ch.utf8Size⟩ n

def bytesLen (l : List Char) : Nat := l.foldl (fun n c => n + c.utf8Size) 0

/-- `HumanSpan::from_range` -/
def fromRange (before after : PState) : Span :=
  let ce := if after.line = before.line then after.col
            else before.col + bytesLen (before.rest.takeWhile (· ≠ '\n'))
  ⟨before.line, before.col, ce⟩

/-- `HumanSpan::from_machine` -/
def fromMachine (s : PState) : Span := ⟨s.line, s.col, s.col + 1⟩

def startsWith (s : PState) (p : String) : Bool := p.toList.isPrefixOf s.rest

/-- nom `multispace`: space, tab, CR, LF -/
def isSpace (c : Char) : Bool := c = ' ' || c = '\t' || c = '\r' || c = '\n'

/-- number of characters `multiblanks0` consumes: runs of whitespace, `#` comments up to the end
of the line, form feeds.  The flag says we are inside a comment. -/
def mb0Aux : Bool → List Char → Nat
  | _, [] => 0
  | true, c :: cs => if c = '\n' then 1 + mb0Aux false cs else 1 + mb0Aux true cs
  | false, c :: cs =>
    if isSpace c || c = '\x0c' then 1 + mb0Aux false cs
    else if c = '#' then 1 + mb0Aux true cs
    else 0

def mb0 (s : PState) : PState := s.adv (mb0Aux false s.rest)

def mb1 (s : PState) : Option PState :=
  let n := mb0Aux false s.rest
  if n = 0 then none else some (s.adv n)

def char? (c : Char) (s : PState) : Option PState :=
  match s.rest with
  | x :: _ => if x = c then some (s.adv 1) else none
  | [] => none

def tag? (t : String) (s : PState) : Option PState :=
  if startsWith s t then some (s.adv t.length) else none

/-! ### terminal -/

def isRegular (c : Char) : Bool := c.isAlphanum || Gen.terminalPunct.contains c

/-- the `while input.starts_with('\\')` loop of `terminal`: text so far, number of escapes read; `none`
when a backslash is followed by a character that cannot be escaped -/
def escLoop : Nat → PState → List Char → Nat → Option (PState × List Char × Nat)
  | 0, s, acc, n => some (s, acc, n)
  | f + 1, s, acc, n =>
    match s.rest with
    | '\\' :: c :: _ =>
      if Gen.terminalEscapable.contains c then escLoop f (s.adv 2) (acc ++ [c]) (n + 1) else none
    | ['\\'] => none
    | _ => some (s, acc, n)

/-- the `loop` of `terminal`: returns the text read so far (reversed) and the state, or `none` when
a backslash is followed by a character that cannot be escaped -/
def terminalLoop : Nat → PState → List Char → Option (PState × List Char)
  | 0, s, acc => some (s, acc)
  | fuel + 1, s, acc =>
    -- an optional sequence of regular characters
    let part := s.rest.takeWhile isRegular
    let s1 := s.adv part.length
    let acc1 := acc ++ part
    -- an optional sequence of escaped characters
    match escLoop (s1.rest.length + 1) s1 acc1 0 with
    | none => none
    | some (s2, acc2, nesc) =>
      -- an optional sequence of fewer than 3 '.'
      if startsWith s2 "..." then some (s2, acc2) else
      let dots := s2.rest.takeWhile (· = '.')
      let s3 := s2.adv dots.length
      let acc3 := acc2 ++ dots
      if part.length + nesc + dots.length = 0 then some (s3, acc3)
      else terminalLoop fuel s3 acc3

def terminal (s : PState) : Option (PState × String) :=
  match terminalLoop (s.rest.length + 1) s [] with
  | none => none
  | some (s', acc) => if acc.isEmpty then none else some (s', String.ofList acc)

/-! ### description -/

/-- the fragments of `description_inner` (`fold_many0(parse_fragment)`) -/
def descrLoop : Nat → PState → List Char → PState × List Char
  | 0, s, acc => (s, acc)
  | fuel + 1, s, acc =>
    -- a non-empty run of characters other than `"` and `\`
    let lit := s.rest.takeWhile (fun c => c ≠ '"' && c ≠ '\\')
    if !lit.isEmpty then descrLoop fuel (s.adv lit.length) (acc ++ lit) else
    match s.rest with
    | '\\' :: '\\' :: _ => descrLoop fuel (s.adv 2) (acc ++ ['\\'])
    | '\\' :: '"' :: _ => descrLoop fuel (s.adv 2) (acc ++ ['"'])
    | '\\' :: c :: cs =>
      -- backslash followed by whitespace: both are dropped
      if isSpace c then
        let ws := (c :: cs).takeWhile isSpace
        descrLoop fuel (s.adv (1 + ws.length)) acc
      else (s, acc)
    | _ => (s, acc)

def description (s : PState) : Option (PState × String) := do
  let s1 ← char? '"' s
  let (s2, acc) := descrLoop (s1.rest.length + 1) s1 []
  let s3 ← char? '"' s2
  some (s3, String.ofList acc)

/-- `opt(preceded(multiblanks0, description))` -/
def optDescription (s : PState) : PState × Option String :=
  match description (mb0 s) with
  | some (s', d) => (s', some d)
  | none => (s, none)

/-! ### nonterminals, commands -/

/-- `is_not(stop)`: a non-empty run of characters not in `stop` -/
def isNot (stop : List Char) (s : PState) : Option (PState × List Char) :=
  let run := s.rest.takeWhile (fun c => !stop.contains c)
  if run.isEmpty then none else some (s.adv run.length, run)

def nonterm (s : PState) : Option (PState × String × Span) := do
  let s1 ← char? '<' s
  let (s2, name) ← isNot ['>'] s1
  let s3 ← char? '>' s2
  some (s3, String.ofList name, fromRange s s3)

def nontermSpecialization (s : PState) : Option (PState × String × Span × String × Span) := do
  let s1 ← char? '<' s
  let (s2, name) ← isNot ['>', '@'] s1
  let s3 ← char? '@' s2
  let (s4, shell) ← isNot ['>'] s3
  let shellSpan := fromRange s3 s4
  let s5 ← char? '>' s4
  some (s5, String.ofList name, fromRange s s5, String.ofList shell, shellSpan)

/-- index of the first occurrence of `}}}` -/
def findTriple : List Char → Option Nat
  | [] => none
  | c :: cs =>
    if "}}}".toList.isPrefixOf (c :: cs) then some 0 else (findTriple cs).map (· + 1)

/-- Rust `char::is_whitespace` on the characters that can matter for `str::trim` -/
def isWs (c : Char) : Bool :=
  c = ' ' || ('\t'.toNat ≤ c.toNat && c.toNat ≤ '\r'.toNat) || c.toNat = 0x85 || c.toNat = 0xA0 ||
  c.toNat = 0x1680 || (0x2000 ≤ c.toNat && c.toNat ≤ 0x200A) || c.toNat = 0x2028 || c.toNat = 0x2029 ||
  c.toNat = 0x202F || c.toNat = 0x205F || c.toNat = 0x3000

def trim (l : List Char) : List Char := ((l.dropWhile isWs).reverse.dropWhile isWs).reverse

def tripleBracketCommand (s : PState) : Option (PState × String) := do
  let s1 ← tag? "{{{" s
  let n ← findTriple s1.rest
  let cmd := s1.rest.take n
  let s2 := s1.adv n
  let s3 ← tag? "}}}" s2
  some (s3, String.ofList (trim cmd))

def many1Tag (s : PState) : Option PState := tag? "..." (mb0 s)

/-! ### the expression ladder -/

mutual
/-- `unary_expr` -/
def unary : Nat → PState → Option (PState × Expr)
  | 0, _ => none
  | fuel + 1, s =>
    let base : Option (PState × Expr) :=
      match nonterm s with
      | some (s', n, sp) => some (s', .nonterm n 0 sp)
      | none =>
      match optional fuel s with
      | some r => some r
      | none =>
      match parenthesized fuel s with
      | some r => some r
      | none =>
      match tripleBracketCommand s with
      | some (s', c) => some (s', .cmd c false 0 (fromRange s s'))
      | none =>
      match terminal s with
      | some (s', t) =>
        let (s'', d) := optDescription s'
        some (s'', .term t d 0 (fromRange s s''))
      | none => none
    match base with
    | none => none
    | some (s', e) =>
      match many1Tag s' with
      | some s'' => some (s'', .many1 e (fromRange s s''))
      | none => some (s', e)
/-- `optional_expr` -/
def optional : Nat → PState → Option (PState × Expr)
  | 0, _ => none
  | fuel + 1, s =>
    match char? '[' s with
    | none => none
    | some s1 =>
      match fallback fuel (mb0 s1) with
      | none => none
      | some (s2, e) =>
        match char? ']' (mb0 s2) with
        | none => none
        | some s3 => some (s3, .opt e (fromRange s s3))
/-- `parenthesized_expr` -/
def parenthesized : Nat → PState → Option (PState × Expr)
  | 0, _ => none
  | fuel + 1, s =>
    match char? '(' s with
    | none => none
    | some s1 =>
      match fallback fuel (mb0 s1) with
      | none => none
      | some (s2, e) =>
        match char? ')' (mb0 s2) with
        | none => none
        | some s3 => some (s3, e)
/-- the `while let Ok(..) = unary_expr` loop of `subword_sequence_expr` -/
def subwordLoop : Nat → PState → List Expr → PState × List Expr
  | 0, s, acc => (s, acc)
  | fuel + 1, s, acc =>
    match unary fuel s with
    | some (s', e) => subwordLoop fuel s' (acc ++ [e])
    | none => (s, acc)
/-- `subword_sequence_expr` -/
def subwordSeq : Nat → PState → Option (PState × Expr)
  | 0, _ => none
  | fuel + 1, s =>
    match unary fuel s with
    | none => none
    | some (s1, left) =>
      let (s2, factors) := subwordLoop fuel s1 [left]
      match factors with
      | [e] => some (s2, e)
      | _ =>
        let sp := fromRange s s2
        some (s2, .sub (.seq (ExprL.ofList (factors.map Check.flatten)) sp) 0 sp)
/-- `subword_sequence_expr_opt_description` -/
def sseod : Nat → PState → Option (PState × Expr)
  | 0, _ => none
  | fuel + 1, s =>
    match subwordSeq fuel s with
    | none => none
    | some (s1, e) =>
      match optDescription s1 with
      | (s2, some d) => some (s2, .dd e d (fromRange s s2))
      | (_, none) => some (s1, e)
def sequenceLoop : Nat → PState → List Expr → PState × List Expr
  | 0, s, acc => (s, acc)
  | fuel + 1, s, acc =>
    match mb1 s with
    | none => (s, acc)
    | some s1 =>
      match sseod fuel s1 with
      | some (s2, e) => sequenceLoop fuel s2 (acc ++ [e])
      | none => (s, acc)
/-- `sequence_expr` -/
def sequence : Nat → PState → Option (PState × Expr)
  | 0, _ => none
  | fuel + 1, s =>
    match sseod fuel s with
    | none => none
    | some (s1, left) =>
      let (s2, factors) := sequenceLoop fuel s1 [left]
      match factors with
      | [e] => some (s2, e)
      | _ => some (s2, .seq (ExprL.ofList factors) (fromRange s s2))
def alternativeLoop : Nat → PState → List Expr → PState × List Expr
  | 0, s, acc => (s, acc)
  | fuel + 1, s, acc =>
    match char? '|' (mb0 s) with
    | none => (s, acc)
    | some s1 =>
      match sequence fuel (mb0 s1) with
      | some (s2, e) => alternativeLoop fuel s2 (acc ++ [e])
      | none => (s, acc)
/-- `alternative_expr` -/
def alternative : Nat → PState → Option (PState × Expr)
  | 0, _ => none
  | fuel + 1, s =>
    match sequence fuel s with
    | none => none
    | some (s1, left) =>
      let (s2, elems) := alternativeLoop fuel s1 [left]
      match elems with
      | [e] => some (s2, e)
      | _ => some (s2, .alt (ExprL.ofList elems) (fromRange s s2))
def fallbackLoop : Nat → PState → List Expr → PState × List Expr
  | 0, s, acc => (s, acc)
  | fuel + 1, s, acc =>
    match tag? "||" (mb0 s) with
    | none => (s, acc)
    | some s1 =>
      match alternative fuel (mb0 s1) with
      | some (s2, e) => fallbackLoop fuel s2 (acc ++ [e])
      | none => (s, acc)
/-- `fallback_expr` = `expr` -/
def fallback : Nat → PState → Option (PState × Expr)
  | 0, _ => none
  | fuel + 1, s =>
    match alternative fuel s with
    | none => none
    | some (s1, left) =>
      let (s2, fbs) := fallbackLoop fuel s1 [left]
      match fbs with
      | [e] => some (s2, e)
      | _ => some (s2, .fb (ExprL.ofList fbs) (fromRange s s2))
end

/-! ### statements -/

def endOfStatement (s : PState) : Option PState :=
  match s.rest with
  | ';' :: _ => some (s.adv 1)
  | [] => some s
  | _ => none

def callVariant (fuel : Nat) (s : PState) : Option (PState × Stmt) := do
  let (s1, name) ← terminal s
  let nameSpan := fromRange s s1
  let s2 ← mb1 s1
  let (s3, e) ← fallback fuel s2
  let s4 ← endOfStatement (mb0 s3)
  some (s4, .call name nameSpan e)

def nontermDefStatement (fuel : Nat) (s : PState) : Option (PState × Stmt) := do
  let (s1, name, sp, shell) ←
    match nontermSpecialization s with
    | some (s1, n, sp, sh, shsp) => some (s1, n, sp, some (sh, shsp))
    | none =>
      match nonterm s with
      | some (s1, n, sp) => some (s1, n, sp, none)
      | none => none
  let s2 := mb0 s1
  let s3 ← (tag? "::=" s2).orElse fun _ => tag? "=" s2
  let (s4, e) ← fallback fuel (mb0 s3)
  let s5 ← endOfStatement (mb0 s4)
  some (s5, .defn name sp shell e)

def statement (fuel : Nat) (s : PState) : Option (PState × Stmt) :=
  match (callVariant fuel s).orElse fun _ => nontermDefStatement fuel s with
  | some (s', st) => some (mb0 s', st)
  | none => none

/-- `many0(statement)`: stops at the first statement that does not parse (or that consumes nothing) -/
def statements : Nat → Nat → PState → List Stmt → PState × List Stmt
  | 0, _, s, acc => (s, acc)
  | n + 1, fuel, s, acc =>
    match statement fuel s with
    | some (s', st) => if s'.rest.length < s.rest.length then statements n fuel s' (acc ++ [st]) else (s, acc)
    | none => (s, acc)

/-- fuel that suffices for an input of `n` characters: every loop iteration and every descent into
brackets consumes a character, and there are at most 8 calls between two consumptions -/
def fuelFor (n : Nat) : Nat := 10 * n + 20

/-- `Grammar::parse`: the statements, or the location of the first statement that does not parse -/
def parse (input : List Char) : Except Span Grammar :=
  let s0 := mb0 (PState.init input)
  let (s1, sts) := statements (input.length + 1) (fuelFor input.length) s0 []
  let s2 := mb0 s1
  if s2.rest.isEmpty then .ok sts else .error (fromMachine s2)

end Complgen.Parse
