import Complgen.Basic
import Complgen.Model.Quote
