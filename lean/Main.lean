import Complgen.Model.Hex
import Complgen.Model.Quote
import Complgen.Model.Pipeline
import Complgen.Model.Parse
import Complgen.Model.Dot
import Complgen.Model.DotEmit
import Complgen.Model.Tables
import Complgen.Model.BashRt
import Complgen.Model.BashRtCalls
import Complgen.Cert.Search
import Complgen.Cert.Canon
import Complgen.Cert.Det
import Complgen.Spec.Den
import Complgen.Spec.Warn
import Complgen.Spec.Complete
import Complgen.Proofs.SpecAuto
import Complgen.Proofs.Ladder
import Complgen.Proofs.LadderFull
import Complgen.Proofs.Statements
import Complgen.Gen.Chains
import Complgen.Gen.Tables
import Complgen.Gen.Diag

open Complgen

def dialectOf : String → Option (Quote.Dialect × Quote.Chain)
  | "bash" => some (Quote.bashDialect, Gen.bashChain)
  | "fish" => some (Quote.fishDialect, Gen.fishChain)
  | "zsh" => some (Quote.zshDialect, Gen.zshChain)
  | "pwsh" => some (Quote.pwshDialect, Gen.pwshChain)
  | "dotcmd" => some (Quote.dotDialect, Gen.dotRegexCmdChain)
  | "dotlabel" => some (Quote.dotDialect, Gen.dotDfaLabelChain)
  | _ => none

/-! ### seeded layouts for the printers with layout (`Proofs/LadderLayout.lean`, `Proofs/Statements.lean`) -/

/-- stretches that may stand directly after a word (no leading `#`), non-empty -/
def layMenuW : List String :=
  [" ", "  ", "\t", "\n", " \n  ", " # a comment\n", "\n# c1\n# c2 | ; (\n", " \x0c ", "\n\x0c\n", " #\n", "\r\n"]
/-- any stretch, possibly empty or starting with a comment -/
def layMenu : List String := ["", "", " "] ++ layMenuW ++ ["# x\n", "#\n "]

def layHash (sd : Nat) (path : List Nat) (field : Nat) : Nat :=
  (path.foldl (fun h x => (h * 1000003 + x + 7) % 2147483647) ((sd * 31 + field) % 2147483647) * 48271) % 2147483647

def pick (menu : List String) (h : Nat) : List Char :=
  match menu[h % menu.length]? with
  | some x => x.toList
  | none => []

def seededLayout (sd : Nat) : Parse.Layout :=
  { sep := fun p => pick layMenuW (layHash sd p 1)
    barL := fun p => pick ("" :: layMenuW) (layHash sd p 2)
    barR := fun p => pick layMenu (layHash sd p 3)
    opn := fun p => pick layMenu (layHash sd p 4)
    cls := fun p => pick ("" :: layMenuW) (layHash sd p 5)
    dots := fun p => pick ("" :: "" :: layMenuW) (layHash sd p 6) }

def seededStmtLayout (sd i : Nat) : Parse.StmtLayout :=
  { eq := layHash sd [i] 7 % 2 == 0
    name := pick layMenuW (layHash sd [i] 8)
    sign := pick layMenu (layHash sd [i] 9)
    expr := seededLayout (sd * 7919 + i)
    semi := pick ("" :: layMenuW) (layHash sd [i] 10)
    next := pick layMenu (layHash sd [i] 11) }

def seededGLayout (sd : Nat) : Parse.GLayout :=
  { lead := pick layMenu (layHash sd [] 12), stmt := fun i => seededStmtLayout sd i, semi := layHash sd [] 13 % 3 != 0 }

/-- every stretch of the menus is a layout in the sense of the theorems (`IsLayout`, and for the
word-adjacent positions not starting with `#`): decided once per request -/
def layoutAdmissible (_sd _n : Nat) : Bool :=
  layMenu.all (fun x => Parse.layoutOK false x.toList) &&
  layMenuW.all (fun x => Parse.layoutOK false x.toList && x.toList.head? != some '#' && !x.isEmpty)

/-! ### automata with their labels on the wire (for the model of `DFA::to_dot`):
`start;acc,acc;from.i.to~from.i.to;inp|inp|…` with `inp` = the fields of `Inp.text` joined by `_` -/

def parseInp (s : String) : Option Inp :=
  match s.splitOn "_" with
  | ["L", t, d, l] => do some (.lit (← Hex.decode t) (← Hex.decodeOpt d) (← l.toNat?))
  | ["W", k, l] => do some (.sub (← k.toNat?) (← l.toNat?))
  | ["C", c, "0", l] => do some (.cmd (← Hex.decode c) (← l.toNat?))
  | ["C", c, "1", l] => do some (.compadd (← Hex.decode c) (← l.toNat?))
  | ["X"] => some .star
  | _ => none

def parseAutoWire (s : String) : Option Auto :=
  match s.splitOn ";" with
  | [st, acc, tr, ins] => do
    let start ← st.toNat?
    let acc ← ((acc.splitOn ",").filter (fun x => x ≠ "" && x ≠ "-")).mapM (·.toNat?)
    let trans ← ((tr.splitOn "~").filter (fun x => x ≠ "" && x ≠ "-")).mapM fun t =>
      match t.splitOn "." with
      | [a, i, b] => do some (← a.toNat?, ← i.toNat?, ← b.toNat?)
      | _ => none
    let inputs ← ((ins.splitOn "|").filter (fun x => x ≠ "" && x ≠ "-")).mapM parseInp
    some { start, trans, acc, inputs }
  | _ => none

/-! ### keyed automata on the wire: `start;acc,acc,…;from,key,to~from,key,to~…` (no blanks) -/

def parseKAuto (s : String) : Option Cert.KAuto :=
  match s.splitOn ";" with
  | [st, acc, tr] => do
    let start ← st.trimAscii.toString.toNat?
    let acc ← ((acc.splitOn ",").filter (· ≠ "")).mapM (·.toNat?)
    let trans ← ((tr.splitOn "~").filter (· ≠ "")).mapM fun t =>
      match t.splitOn "," with
      | [a, k, b] => do some (← a.toNat?, k, ← b.toNat?)
      | _ => none
    some { start, acc, trans }
  | _ => none

open Complgen.Cert (canonK sortStrings hashKey)

def KAuto.wire (a : Cert.KAuto) : String := a.wire

def keyOfInp (subKey : Nat → String) : Inp → String
  | .lit t d l => s!"L:{Hex.encode t}:{Hex.encodeOpt d}:{l}"
  | .sub k l => s!"W:{subKey k}:{l}"
  | .cmd c l => s!"C:{Hex.encode c}:0:{l}"
  | .compadd c l => s!"C:{Hex.encode c}:1:{l}"
  | .star => "X"

def kautoOf (subKey : Nat → String) (a : Auto) : Cert.KAuto :=
  { start := a.start, acc := a.acc,
    trans := a.trans.map fun t => (t.1, keyOfInp subKey (a.inputs[t.2.1]?.getD .star), t.2.2) }

/-- key of the k-th within-word automaton: the hash of the canonical form of its language, plus the
number of earlier pool entries with the same language (language-equal automata that were interned
apart keep different keys, so the main automaton stays deterministic as an automaton over keys) -/
def subKeys (subs : List Auto) : Nat → String :=
  let hs := subs.map fun a => match canonK (kautoOf (fun _ => "?") a) with
    | some c => hashKey (KAuto.wire c)
    | none => "?"
  fun k => match hs[k]? with
    | none => "?"
    | some h => s!"{h}.{((hs.take k).filter (· == h)).length}"

def spansText (l : List Span) : String := " ".intercalate (l.map Span.text)

def alistText (m : Check.AList Span) : String :=
  " ".intercalate (sortStrings (m.map fun (n, s) => s!"{Hex.encode n}@{s.text}"))

def shellOf (s : String) : Option Shell := Shell.ofName? s

def outcomeText {α} (f : α → String) : Check.Outcome α → String
  | .ok a => "ok " ++ f a
  | .err c s => s!"err {c.name} {spansText s}"
  | .crash site => s!"crash {site}"

def regexText (r : Regex) : String :=
  let follow := " ".intercalate ((List.range r.inputs.length).filterMap fun p =>
    let f := normSet (r.follow p)
    if f.isEmpty then none else some s!"{p}:{",".intercalate (f.map toString)}")
  s!"inputs {" | ".intercalate (r.inputs.map RxInput.text)} ; end {r.endPos} ; tree {("K 2 " ++ r.root.text ++ s!"Z {r.endPos}")} ; nullable {r.nullable} ; first {",".intercalate ((normSet r.first).map toString)} ; follow {follow}"

def optListText : Option (List String) → String
  | none => "N"
  | some [] => "E"
  | some cs => ",".intercalate (sortStrings (cs.map Hex.encode))

def callsText (cs : List Spec.Complete.Call) : String :=
  if cs.isEmpty then "E" else
  ",".intercalate (sortStrings (cs.map fun c => s!"{Hex.encode c.cmd}/{Hex.encode c.a1}/{Hex.encode c.a2}"))

def parseOutTable (s : String) : String → List String :=
  let rows : List (String × List String) := if s == "-" then [] else
    (s.splitOn ";").filterMap fun row =>
      match row.splitOn "=" with
      | [c, ls] => do
        let c ← Hex.decode c
        let ls ← ((ls.splitOn ",").filter (· ≠ "")).mapM Hex.decode
        some (c, ls)
      | _ => none
  fun c => ((rows.find? (·.1 == c)).map (·.2)).getD []

def completeOne (W : Spec.Complete.World) (cl : String) : String :=
  match (cl.splitOn ",").mapM Hex.decode with
  | some (wb :: rest) =>
    match rest.reverse with
    | p :: wsRev =>
      let a := Spec.Complete.complete W wsRev.reverse p wb
      let lw := match a.lenientWord with | none => "-" | some x => optListText x
      let ll := match a.lenientLast with | none => "-" | some x => optListText x
      s!"{optListText a.strict}|{if a.ambiguous then 1 else if a.lenientAmbiguous then 2 else 0}|{lw}|{ll}|{callsText a.required}|{callsText a.allowed}"
    | [] => "bad-cmdline"
  | _ => "bad-cmdline"

/-! ### tables of an emitted bash script on the wire:
`lits=h,h;lt=q:i>t,i>t/q:…;ct=…;st=q>t,…;wt=…;ll=q:i.i/q:i|q:i;cl=…;wl=…;max=n` -/

def parsePairs (s : String) : List (Nat × Nat) :=
  ((s.splitOn ",").filter (· ≠ "")).filterMap fun p =>
    match p.splitOn ">" with
    | [a, b] => do some (← a.toNat?, ← b.toNat?)
    | _ => none

def parseRows (s : String) : List BashRt.Row :=
  ((s.splitOn "/").filter (· ≠ "")).filterMap fun r =>
    match r.splitOn ":" with
    | [q, ps] => do some (← q.toNat?, parsePairs ps)
    | _ => none

def parseLevels (s : String) : List (List BashRt.LevelRow) :=
  if s == "" then [] else
  (s.splitOn "|").map fun lvl =>
    ((lvl.splitOn "/").filter (· ≠ "")).filterMap fun r =>
      match r.splitOn ":" with
      | [q, ids] => do some (← q.toNat?, ((ids.splitOn ".").filter (· ≠ "")).filterMap (·.toNat?))
      | _ => none

def parseTables (s : String) : BashRt.Tables :=
  let kv := (s.splitOn ";").filterMap fun f =>
    match f.splitOn "=" with
    | [k, v] => some (k, v)
    | _ => none
  let get := fun k => ((kv.find? (·.1 == k)).map (·.2)).getD ""
  { literals := ((get "lits").splitOn ",").filter (· ≠ "") |>.filterMap Hex.decode,
    litTrans := parseRows (get "lt"), cmdTrans := parseRows (get "ct"), star := parsePairs (get "st"),
    subTrans := parseRows (get "wt"), litLevels := parseLevels (get "ll"), cmdLevels := parseLevels (get "cl"),
    subLevels := parseLevels (get "wl"), maxLevel := ((get "max").toNat?).getD 0 }

def parseOutIds (s : String) : Nat → List String :=
  let rows : List (Nat × List String) := if s == "-" then [] else
    (s.splitOn ";").filterMap fun row =>
      match row.splitOn "=" with
      | [c, ls] => do
        let ls ← ((ls.splitOn ",").filter (· ≠ "")).mapM Hex.decode
        some (← c.toNat?, ls.map Spec.Complete.field)
      | _ => none
  fun c => ((rows.find? (·.1 == c)).map (·.2)).getD []

def bashrtOne (S : BashRt.Script) (start : Nat) (cl : String) : String :=
  match (cl.splitOn ",").mapM Hex.decode with
  | some (wb :: rest) =>
    match rest.reverse with
    | p :: wsRev =>
      let r := BashRt.completeL S start wsRev.reverse p wb
      let calls := if r.2.isEmpty then "E" else
        ",".intercalate (r.2.map fun c => s!"{c.1}/{Hex.encode c.2.1}/{Hex.encode c.2.2}")
      optListText r.1 ++ "#" ++ calls
    | [] => "bad-cmdline"
  | _ => "bad-cmdline"

def handle (line : String) : String :=
  let line := line.trimAscii.toString
  match line.splitOn " " with
  | ["quote", sh, h] =>
    match dialectOf sh, Hex.decode h with
    | some (_, ch), some s => "ok " ++ Hex.encode (String.ofList (Quote.applyChain ch s.toList))
    | _, _ => "bad-op"
  | ["decode", sh, h] =>
    match dialectOf sh, Hex.decode h with
    | some (D, _), some s =>
      match D.decode s.toList with
      | some t => "ok " ++ Hex.encode (String.ofList t)
      | none => "none"
    | _, _ => "bad-op"
  | "validate" :: sh :: rest =>
    match shellOf sh, readGrammar (" ".intercalate rest) with
    | some sh, some g =>
      outcomeText (fun (v : Check.Valid) =>
        s!"{Hex.encode v.command} | {v.expr.text.trimAsciiEnd.toString} | {alistText v.undefined} | {alistText v.unused} | {alistText v.unusedSpecs}")
        (Check.validate g sh)
    | _, _ => "bad-op"
  | "rx" :: sh :: rest =>
    match shellOf sh, readGrammar (" ".intercalate rest) with
    | some sh, some g =>
      match Check.validate g sh with
      | .ok v =>
        let (r, pool) := Regex.ofExpr v.expr []
        "ok " ++ regexText r ++ String.join (pool.map fun sr => " ## " ++ regexText sr)
      | .err c s => s!"err {c.name} {spansText s}"
      | .crash s => s!"crash {s}"
    | _, _ => "bad-op"
  | "compile" :: sh :: rest =>
    match shellOf sh, readGrammar (" ".intercalate rest) with
    | some sh, some g =>
      outcomeText (fun (c : Pipeline.Compiled) =>
        let sk := subKeys c.raw.subs
        s!"raw {KAuto.wire (kautoOf sk c.raw.main)} ## min {KAuto.wire (kautoOf sk c.min.main)}" ++
          String.join (c.min.subs.map fun a => " ## sub " ++ KAuto.wire (kautoOf sk a)))
        (Pipeline.compile fifo g sh)
    | _, _ => "bad-op"
  | "spec" :: sh :: rest =>
    match shellOf sh, readGrammar (" ".intercalate rest) with
    | some sh, some g =>
      let m := Spec.meaning g sh
      let a := (Spec.toSRx Spec.wordKey m).toKAuto
      -- the hypotheses of `Spec.specAuto_correct` on this grammar: construction finished, no empty alternative
      let fin := if Spec.finishedB (Spec.toSRx Spec.wordKey m) then 1 else 0
      let nea := if Spec.NoEmptyAlt m then 1 else 0
      s!"ok {KAuto.wire a} ## {m.text.trimAsciiEnd.toString} ## {" ".intercalate ((Spec.wordsOf m).map Spec.wordKey)} ## {" ".intercalate ((Spec.wordsOf m).map fun c => hashKey c.eraseSpans.text)} ## fin={fin} nea={nea}"
    | _, _ => "bad-op"
  | "pick" :: sh :: name :: rest =>
    match shellOf sh, Hex.decode name, readGrammar (" ".intercalate rest) with
    | some sh, some name, some g =>
      match Spec.pick sh g name with
      | .command c a => s!"command {Hex.encode c} {if a then 1 else 0}"
      | .expr e => s!"expr {e.text.trimAsciiEnd.toString}"
      | .anyWord => "anyword"
    | _, _, _ => "bad-op"
  | "warnspec" :: sh :: rest =>
    match shellOf sh, readGrammar (" ".intercalate rest) with
    | some sh, some g =>
      let f := fun (l : List String) => " ".intercalate (sortStrings (l.map Hex.encode))
      s!"ok {f (Spec.undefinedNames sh g)} | {f (Spec.unusedNames g)} | {f (Spec.unusedSpecNames sh g)}"
    | _, _ => "bad-op"
  | "pp" :: rest =>
    -- the printer of `Proofs/Ladder.lean` (the one `ladder_roundtrip` is about) on the first call variant
    match readGrammar (" ".intercalate rest) with
    | some (Stmt.call n _ e :: _) => "ok " ++ Hex.encode (n ++ " " ++ String.ofList (Parse.pp 0 e) ++ ";")
    | _ => "bad-op"
  | "ppfull" :: rest =>
    -- the printer of `Proofs/LadderFull.lean` (escapes, descriptions, juxtaposition) on the first call variant
    match readGrammar (" ".intercalate rest) with
    | some (Stmt.call n _ e :: _) =>
      -- second field: does the parser model read the printed text back as `e` (up to spans)?  (true for
      -- every tree of the fragment by `ladder_roundtrip_full`; false tells the tree is outside it)
      "ok " ++ Hex.encode (n ++ " " ++ String.ofList (Parse.Full.pp' 0 e) ++ ";") ++
        (if Parse.Full.readsBack e then " 1" else " 0")
    | _ => "bad-op"
  | "ppgram" :: seed :: rest =>
    -- the printer of `Proofs/Statements.lean` on the whole grammar, under the layout drawn from `seed`
    -- (0 = the plain printer); the layout is checked to be admissible in the sense of the theorem
    match seed.toNat?, readGrammar (" ".intercalate rest) with
    | some sd, some g =>
      if sd == 0 then "ok " ++ Hex.encode (String.ofList (Parse.ppGrammar g)) else
      let G := seededGLayout sd
      if layoutAdmissible sd g.length then "ok " ++ Hex.encode (String.ofList (Parse.ppGrammarL G g))
      else "bad-layout"
    | _, _ => "bad-op"
  | ["parse", h] =>
    match Hex.decode h with
    | some src =>
      match Parse.parse src.toList with
      | .ok g => "ok " ++ Grammar.text g
      | .error sp => s!"err {sp.text}"
    | none => "bad-op"
  | "complete" :: sh :: out :: cls :: rest =>
    match shellOf sh, readGrammar (" ".intercalate rest) with
    | some sh, some g =>
      let W := Spec.Complete.worldOf g sh (parseOutTable out)
      "ok " ++ " ; ".intercalate ((cls.splitOn ";").map (completeOne W))
    | _, _ => "bad-op"
  | ["tablescmp", main, subs, realMain, realSubs] =>
    -- the model of the table construction (Model/Tables.lean; `tables_embed_main`: the tables determine exactly the
    -- automaton) on the automaton of the real library vs the tables read from the real bash script; literal ids are
    -- compared up to the order among entries with the same text (`canonLits`: bash scripts carry no descriptions,
    -- and the real code orders such entries with an unstable sort)
    match parseAutoWire main, (if subs == "-" then some [] else (subs.splitOn "&").mapM parseAutoWire) with
    | some m, some ss =>
      let d : Dfa := ⟨m, ss⟩
      let S := Tables.ofDfa d
      let canon := fun (T : BashRt.Tables) => Tables.wire (Tables.canonLits T)
      let cmds := ",".intercalate ((Tables.commands d).map Hex.encode)
      let real := if realSubs == "-" then [] else (realSubs.splitOn "&").filterMap fun x =>
        match x.splitOn "@" with
        | [j, w] => j.toNat?.map fun j => (j, w)
        | _ => none
      if canon (parseTables realMain) != canon S.main then
        s!"ok differ main model={canon S.main} real={canon (parseTables realMain)} ## {cmds}"
      else if real.map (·.1) != S.subs.map (·.1) then
        s!"ok differ subids model={S.subs.map (·.1)} real={real.map (·.1)} ## {cmds}"
      else
        match real.find? (fun (j, w) => canon (parseTables w) != canon (S.sub j)) with
        | some (j, w) => s!"ok differ sub{j} model={canon (S.sub j)} real={canon (parseTables w)} ## {cmds}"
        | none => s!"ok same ## {cmds}"
    | _, _ => "bad-op"
  | ["dotemit", base, main, subs] =>
    -- the model of `DFA::to_dot` (Model/DotEmit.lean; `emitDfa_parse`: its output always parses to the
    -- expected graph) on the automaton of the real library: the bytes must be those of the real `--dfa` file
    match base.toNat?, parseAutoWire main,
        (if subs == "-" then some [] else (subs.splitOn "&").mapM parseAutoWire) with
    | some b, some m, some ss =>
      let d : Dfa := ⟨m, ss⟩
      let scope := (m :: ss).all fun a => a.inputs.all fun
        | .lit _ (some dsc) _ => Dot.debugInScope dsc
        | _ => true
      s!"ok {Hex.encode (Dot.emitDfa d b)} {if scope then 1 else 0}"
    | _, _, _ => "bad-op"
  | ["dot", h] =>
    match Hex.decode h with
    | some src => Dot.dumpText src
    | none => "bad-op"
  | ["bashrt", start, out, main, subs, cls] =>
    let S : BashRt.Script :=
      { main := parseTables main,
        subs := if subs == "-" then [] else (subs.splitOn "&").filterMap fun x =>
          match x.splitOn "@" with
          | [id, t] => do some (← id.toNat?, parseTables t)
          | _ => none,
        out := parseOutIds out }
    "ok " ++ " ; ".intercalate ((cls.splitOn ";").map (bashrtOne S (start.toNat?.getD 0)))
  | ["labels"] =>
    "ok " ++ " ".intercalate (Gen.diagLabels.map fun (k, v) => s!"{Hex.encode k}:{Hex.encode v}")
  | ["canon", a] =>
    match parseKAuto a with
    | some a => match canonK a with
      | some c => s!"ok {hashKey (KAuto.wire c)} {c.states.length} {KAuto.wire c}"
      | none => "none"
    | none => "bad-op"
  | ["equiv", a, b] =>
    match parseKAuto a, parseKAuto b with
    | some a, some b =>
      if !Cert.detCheck a then "nondet A" else if !Cert.detCheck b then "nondet B" else
      match Cert.findBisim a b with
      | .error w => "differ " ++ " ".intercalate w
      | .ok R => if Cert.bisimCheck a b R then s!"equiv {R.length}" else "search-failed"
    | _, _ => "bad-op"
  | ["worddet", a] =>
    match parseKAuto a with
    | some a =>
      if Cert.wordDetCheck a Cert.wordClass then "det" else
      match Cert.wordConflict a Cert.wordClass with
      | some (q, k1, k2, t1, t2) => s!"conflict {q} {k1} {k2} {t1} {t2}"
      | none => "search-failed"
    | none => "bad-op"
  | ["conflicts", a] =>
    match parseKAuto a with
    | some a => "ok " ++ " ".intercalate ((Cert.wordConflictPairs a Cert.wordClass).map fun (x, y) => s!"{x},{y}")
    | none => "bad-op"
  | ["eraselevels", a] =>
    match parseKAuto a with
    | some a => "ok " ++ KAuto.wire (a.mapKeys Cert.eraseLevel)
    | none => "bad-op"
  | ["minimal", a] =>
    match parseKAuto a with
    | some a =>
      if !Cert.detCheck a then "nondet" else
      let acc := Cert.accessWords a
      if !Cert.accessCheck a acc then
        match a.states.find? (fun s => !(acc.any (·.1 == s))) with
        | some s => s!"unreachable {s}"
        | none => "search-failed access"
      else
      let co := Cert.coaccessWords a
      if !Cert.coaccessCheck a co then
        match a.states.find? (fun s => !(co.any (·.1 == s))) with
        | some s => s!"dead {s}"
        | none => "search-failed coaccess"
      else
      match Cert.distinguish a with
      | .error (p, q) => s!"mergeable {p} {q}"
      | .ok d => if Cert.distinctCheck a d then s!"minimal {a.states.length}" else "search-failed distinct"
    | none => "bad-op"
  | _ => "bad-op"

partial def loop (h : IO.FS.Stream) (out : IO.FS.Stream) : IO Unit := do
  let line ← h.getLine
  if line.isEmpty then return ()
  out.putStrLn (handle line)
  loop h out

def main : IO Unit := do
  let out ← IO.getStdout
  loop (← IO.getStdin) out
  out.flush
