import Complgen.Model.Hex
import Complgen.Model.Quote
import Complgen.Gen.Chains
import Complgen.Gen.Tables

open Complgen

def dialectOf : String → Option (Quote.Dialect × Quote.Chain)
  | "bash" => some (Quote.bashDialect, Gen.bashChain)
  | "fish" => some (Quote.fishDialect, Gen.fishChain)
  | "zsh" => some (Quote.zshDialect, Gen.zshChain)
  | "pwsh" => some (Quote.pwshDialect, Gen.pwshChain)
  | "dotcmd" => some (Quote.dotDialect, Gen.dotRegexCmdChain)
  | "dotlabel" => some (Quote.dotDialect, Gen.dotDfaLabelChain)
  | _ => none

def handle (line : String) : String :=
  match line.trimAscii.toString.splitOn " " with
  | ["quote", sh, h] =>
    match dialectOf sh, Hex.decode h with
    | some (_, ch), some s => "ok " ++ Hex.encode (String.ofList (Quote.applyChain ch s.toList))
    | _, _ => "bad-op"
  | ["decode", sh, h] =>
    match dialectOf sh, Hex.decode h with
    | some (D, _), some s =>
      match D.decode s.toList with
      | some t => "ok " ++ Hex.encode (String.ofList t)
      | none => "none"
    | _, _ => "bad-op"
  | _ => "bad-op"

partial def loop (h : IO.FS.Stream) (out : IO.FS.Stream) : IO Unit := do
  let line ← h.getLine
  if line.isEmpty then return ()
  out.putStrLn (handle line)
  loop h out

def main : IO Unit := do
  let out ← IO.getStdout
  loop (← IO.getStdin) out
  out.flush
