#!/usr/bin/env python3
"""Translator: regenerates /verif/lean/Complgen/Gen/*.lean from /repo's current Rust source.

What is extracted (each item is a small pure table the theorems in Props/ are stated about):
  * the escape chains of `make_string_constant` (bash.rs, fish.rs, zsh.rs, pwsh.rs) and
    `make_dot_string_constant` (regex.rs), and the inline label chain of dfa.rs::do_to_dot
  * `ARRAY_START` of the four emitters
  * the character class and the escapable set of parse.rs::terminal
  * the built-in PATH / DIRECTORY command table of check.rs::make_builtin_specializations
The translator refuses (exit 2, message on stderr) when a pattern it relies on no longer matches:
the tie to the source is then broken and the calling check reports that.
"""
import os
import re
import sys

REPO = os.environ.get("VERIF_REPO", "/repo")
OUT = os.path.join(os.path.dirname(os.path.abspath(__file__)), "..", "lean", "Complgen", "Gen")


class Refuse(Exception):
    pass


def read(rel):
    with open(os.path.join(REPO, rel), encoding="utf-8") as f:
        return f.read()


def fn_body(src, header_re, what):
    m = re.search(header_re, src)
    if not m:
        raise Refuse(f"{what}: function header not found")
    start = src.index("{", m.end() - 1)
    depth = 0
    i = start
    # brace matching that skips char and string literals well enough for these small functions
    while i < len(src):
        c = src[i]
        if c == '"':
            # raw string r#"..."# ?
            j = i - 1
            hashes = 0
            while j >= 0 and src[j] == "#":
                hashes += 1
                j -= 1
            if j >= 0 and src[j] == "r":
                end = src.index('"' + "#" * hashes, i + 1)
                i = end + 1 + hashes
                continue
            i += 1
            while src[i] != '"':
                if src[i] == "\\":
                    i += 1
                i += 1
            i += 1
            continue
        if c == "'":
            # char literal
            m2 = re.match(r"'(\\.|[^\\'])'", src[i:])
            if m2:
                i += m2.end()
                continue
        if c == "{":
            depth += 1
        elif c == "}":
            depth -= 1
            if depth == 0:
                return src[start + 1 : i]
        i += 1
    raise Refuse(f"{what}: unbalanced braces")


RUST_ESC = {"\\": "\\", '"': '"', "'": "'", "n": "\n", "r": "\r", "t": "\t", "0": "\0"}


def unescape(lit, what):
    out = []
    i = 0
    while i < len(lit):
        c = lit[i]
        if c == "\\":
            i += 1
            if i >= len(lit):
                raise Refuse(f"{what}: dangling backslash in literal {lit!r}")
            e = lit[i]
            if e == "u":
                m = re.match(r"u\{([0-9a-fA-F]+)\}", lit[i:])
                if not m:
                    raise Refuse(f"{what}: bad unicode escape in {lit!r}")
                out.append(chr(int(m.group(1), 16)))
                i += m.end()
                continue
            if e not in RUST_ESC:
                raise Refuse(f"{what}: unknown escape \\{e} in {lit!r}")
            out.append(RUST_ESC[e])
        else:
            out.append(c)
        i += 1
    return "".join(out)


REPLACE_RE = re.compile(r"""\.replace\(\s*'((?:\\.|[^\\'])+)'\s*,\s*"((?:\\.|[^\\"])*)"\s*,?\s*\)""", re.S)


def chain_of(body, what):
    chain = []
    for m in REPLACE_RE.finditer(body):
        p = unescape(m.group(1), what)
        if len(p) != 1:
            raise Refuse(f"{what}: pattern is not a single char: {m.group(1)!r}")
        chain.append((p, unescape(m.group(2), what)))
    # everything that is not a recognised .replace(..) must be one of the known skeletons
    rest = REPLACE_RE.sub("", body)
    rest = re.sub(r"//[^\n]*", "", rest)
    rest = re.sub(r"\s+", "", rest)
    return chain, rest


STRING_CONSTANT_SKELETONS = {
    's',
    'format!(r#""{}""#,s)',
    'format!(r#""{}""#,s,)',
    'letescaped=s;format!(r#""{escaped}""#)',
}


def string_constant_chain(rel, fname="make_string_constant"):
    src = read(rel)
    body = fn_body(src, r"fn\s+" + fname + r"\s*\(\s*s\s*:\s*&str\s*\)\s*->\s*String\s*\{", f"{rel}::{fname}")
    chain, rest = chain_of(body, f"{rel}::{fname}")
    if rest not in STRING_CONSTANT_SKELETONS:
        raise Refuse(f"{rel}::{fname}: unrecognised body shape {rest!r}")
    return chain


def dot_string_constant_chain():
    """regex.rs: make_dot_string_constant wraps dot_escape (the chain) in quotes"""
    src = read("src/regex.rs")
    body = fn_body(src, r"fn\s+make_dot_string_constant\s*\(\s*s\s*:\s*&str\s*\)\s*->\s*String\s*\{", "regex.rs::make_dot_string_constant")
    flat = re.sub(r"\s+", "", body).strip("{}")
    if flat == 'format!(r#""{}""#,dot_escape(s))' or 'dot_escape(s)' in flat:
        return string_constant_chain("src/regex.rs", "dot_escape")
    return string_constant_chain("src/regex.rs", "make_dot_string_constant")


def dfa_label_chain():
    src = read("src/dfa.rs")
    m = re.search(r"diagnostic_display_input\(&mut buffer, input\)\?;\s*buffer((?:\s*\.replace\([^)]*\))*)\s*\}", src)
    if not m:
        raise Refuse("src/dfa.rs::do_to_dot: label construction not found")
    chain, rest = chain_of(m.group(1), "src/dfa.rs::do_to_dot label")
    if rest != "":
        raise Refuse(f"src/dfa.rs::do_to_dot label: unrecognised {rest!r}")
    return chain


def array_start(rel):
    m = re.search(r"pub const ARRAY_START: u32 = (\d+);", read(rel))
    if not m:
        raise Refuse(f"{rel}: ARRAY_START not found")
    return int(m.group(1))


def terminal_class():
    src = read("src/parse.rs")
    body = fn_body(src, r"fn\s+terminal\s*\(\s*mut\s+input\s*:\s*Span\s*\)\s*->\s*IResult<Span,\s*String>\s*\{", "parse.rs::terminal")
    inner = fn_body(body, r"fn\s+is_regular_terminal_char\s*\(\s*c\s*:\s*char\s*\)\s*->\s*bool\s*\{", "parse.rs::is_regular_terminal_char")
    flat = re.sub(r"\s+", "", inner)
    m = re.fullmatch(r"c\.is_ascii_alphanumeric\(\)\|\|matches!\(c,((?:'(?:\\.|[^\\'])'\|?)+),?\)", flat)
    if not m:
        raise Refuse(f"parse.rs::is_regular_terminal_char: unrecognised shape {flat!r}")
    chars = [unescape(x, "terminal class") for x in re.findall(r"'((?:\\.|[^\\'])+)'", m.group(1))]
    m2 = re.search(r"input\.starts_with\(\[\s*((?:'(?:\\.|[^\\'])'\s*,?\s*)+)\]\)", body)
    if not m2:
        raise Refuse("parse.rs::terminal: escapable set not found")
    escapable = [unescape(x, "escapable set") for x in re.findall(r"'((?:\\.|[^\\'])+)'", m2.group(1))]
    return chars, escapable


def builtin_table():
    src = read("src/check.rs")
    body = fn_body(src, r"fn\s+make_builtin_specializations\s*\(\s*shell\s*:\s*Shell\s*\)\s*->\s*UstrMap<BuiltinSpec>\s*\{", "check.rs::make_builtin_specializations")
    table = []
    for var, name in re.findall(r'\.entry\(ustr\("([A-Z_]+)"\)\)\s*\.insert_entry\((\w+)\)', body):
        m = re.search(r"let\s+" + name + r"\s*=\s*match\s+shell\s*\{(.*?)\n    \};", body, re.S)
        if not m:
            raise Refuse(f"check.rs::make_builtin_specializations: definition of {name} not found")
        arms = re.findall(r'Shell::(\w+)\s*=>\s*BuiltinSpec\s*\{(?:\s*//[^\n]*\n)*\s*cmd:\s*ustr\(r#"(.*?)"#\),?\s*\}', m.group(1), re.S)
        got = {sh.lower(): cmd for sh, cmd in arms}
        if set(got) != {"bash", "fish", "zsh", "pwsh"}:
            raise Refuse(f"check.rs::make_builtin_specializations: arms of {name}: {sorted(got)}")
        for sh in ("bash", "fish", "zsh", "pwsh"):
            table.append((var, sh, got[sh]))
    if not table:
        raise Refuse("check.rs::make_builtin_specializations: no entries")
    return table


def lean_char(c):
    return f"Char.ofNat {ord(c)}"


def lean_chars(s):
    return "[" + ", ".join(lean_char(c) for c in s) + "]"


def lean_str(s):
    return "String.ofList " + lean_chars(s)


def diag_labels():
    """Error variant -> first diagnostic line printed by main.rs::handle_error (the ErrMsg title or the
    `error: ...` line of its arm; the thiserror Display text when the variant has no arm of its own)."""
    lib = read("src/lib.rs")
    m = re.search(r"pub enum Error \{(.*?)\n\}", lib, re.S)
    if not m:
        raise Refuse("lib.rs: enum Error not found")
    variants = re.findall(r'#\[error\("((?:[^"\\]|\\.)*)"[^\]]*\)\]\s*(\w+)', m.group(1))
    if len(variants) < 10:
        raise Refuse("lib.rs: fewer Error variants than expected")
    main = read("src/main.rs")
    body = fn_body(main, r"fn handle_error\(", "handle_error")
    arms = list(re.finditer(r"\n        Error::(\w+)", body))
    out = []
    for text, name in variants:
        label = None
        for k, a in enumerate(arms):
            if a.group(1) == name:
                end = arms[k + 1].start() if k + 1 < len(arms) else len(body)
                arm = body[a.start():end]
                m1 = re.search(r'ErrMsg::new\("((?:[^"\\]|\\.)*)"\)', arm)
                m2 = re.search(r'eprintln!\("(error: [^"]*)"\)', arm)
                cands = [x for x in (m1, m2) if x]
                if cands:
                    label = min(cands, key=lambda x: x.start()).group(1)
        if label is None:
            label = text
        out.append((name, label))
    return out


CONTAINER_ORIGIN = {"hashbrown": "hashbrown", "indexmap": "indexmap", "ustr": "ustr", "std::collections": "std",
                    "std": "std", "roaring": "roaring"}
ORDER_BEARING = ("HashMap", "HashSet", "IndexMap", "IndexSet", "BTreeMap", "BTreeSet", "UstrMap", "UstrSet", "RoaringBitmap")


def nondet_inventory():
    """(containers, runtime_reads, env_names, versions): every `use` of an order-bearing container type per file with
    its origin crate, every fully qualified std hash container, every read of the run-time environment / clock /
    thread id / pointer formatting / RNG in src/*.rs, the environment names mentioned anywhere, crate versions."""
    src_dir = os.path.join(REPO, "src")
    containers, reads, env_names = [], [], set()
    for fn in sorted(os.listdir(src_dir)):
        if not fn.endswith(".rs"):
            continue
        text = read("src/" + fn)
        # strip line comments so that prose does not count
        code = re.sub(r"//[^\n]*", "", text)
        for m in re.finditer(r"^\s*(?:pub\s+)?use\s+([\w:]+)::(\{[^}]*\}|\w+)\s*;", code, re.M):
            path, items = m.group(1), m.group(2)
            names = re.findall(r"[\w:]+", items)
            for nm in names:
                full = path + "::" + nm
                base = nm.split("::")[-1]
                if base in ORDER_BEARING:
                    if "collections" in full and base.startswith("Hash"):
                        origin = "std-hash"
                    elif "collections" in full:
                        origin = "std-btree"
                    else:
                        origin = full.split("::")[0]
                    containers.append((fn, base, origin))
        for m in re.finditer(r"std::collections::(HashMap|HashSet)|collections::hash_map|hash::RandomState|RandomState::new", code):
            containers.append((fn, m.group(0), "std-hash"))
        for pat, what in ((r"env::var(?:_os)?\s*\(", "env::var"), (r"env::vars(?:_os)?\s*\(", "env::vars"),
                          (r"SystemTime|Instant::now|chrono::", "clock"), (r"thread::current|process::id\s*\(", "thread/process id"),
                          (r"\{:p\}", "pointer formatting"), (r"thread_rng|rand::|getrandom", "rng"),
                          (r"thread::spawn|thread::scope|thread::Builder|mpsc::|rayon::|crossbeam", "threads")):
            for m in re.finditer(pat, code):
                reads.append((fn, what))
        for m in re.finditer(r"(?:env!|option_env!|env::var(?:_os)?)\s*\(\s*\"([A-Za-z_][A-Za-z0-9_]*)\"", code):
            env_names.add(m.group(1))
    try:
        for m in re.finditer(r"(?:env!|option_env!|env::var(?:_os)?)\s*\(\s*\"([A-Za-z_][A-Za-z0-9_]*)\"", read("build.rs")):
            env_names.add(m.group(1))
    except OSError:
        pass
    lock = read("Cargo.lock")
    versions = []
    for crate in ("hashbrown", "ahash", "indexmap", "ustr"):
        for m in re.finditer(r'name = "%s"\nversion = "([^"]+)"' % crate, lock):
            versions.append((crate, m.group(1)))
    m = re.search(r'^hashbrown\s*=\s*(?:"([^"]+)"|\{[^}]*version\s*=\s*"([^"]+)")', read("Cargo.toml"), re.M)
    if not m:
        raise Refuse("Cargo.toml: hashbrown requirement not found")
    versions.append(("hashbrown-direct", m.group(1) or m.group(2)))
    if not containers:
        raise Refuse("no container imports found in src/*.rs")
    return sorted(set(containers)), sorted(set(reads)), sorted(env_names), versions


def hand_written_impls():
    """types of src/*.rs with a hand-written `Hash` impl, and those with a hand-written `PartialEq` impl.  A type that is
    the key of a (randomly seeded) hash container must hash consistently with its equality; a hand-written `Hash` next
    to a *derived* `PartialEq` is how the two drifted apart in DFA / InpInternPool (repair 131db37)."""
    hashes, eqs = [], []
    for fn in sorted(os.listdir(os.path.join(REPO, "src"))):
        if not fn.endswith(".rs"):
            continue
        code = re.sub(r"//[^\n]*", "", read("src/" + fn))
        for m in re.finditer(r"impl(?:<[^>]*>)?\s+(?:std::hash::|core::hash::)?Hash\s+for\s+(\w+)", code):
            hashes.append((fn, m.group(1)))
        for m in re.finditer(r"impl(?:<[^>]*>)?\s+(?:std::cmp::|core::cmp::)?PartialEq(?:<[^>]*>)?\s+for\s+(\w+)", code):
            eqs.append((fn, m.group(1)))
    return sorted(set(hashes)), sorted(set(eqs))


def derived_hash_types():
    """types of src/*.rs that derive `Hash` (`#[derive(…, Hash, …)]` before a struct / enum)"""
    out = []
    for fn in sorted(os.listdir(os.path.join(REPO, "src"))):
        if not fn.endswith(".rs"):
            continue
        code = re.sub(r"//[^\n]*", "", read("src/" + fn))
        for m in re.finditer(r"#\[derive\(([^)]*)\)\]\s*(?:#\[[^\]]*\]\s*)*(?:pub(?:\([^)]*\))?\s+)?(?:struct|enum)\s+(\w+)", code):
            if re.search(r"\bHash\b", m.group(1)):
                out.append((fn, m.group(2)))
    return sorted(set(out))


def lean_chain(chain):
    return "[" + ", ".join(f"({lean_char(p)}, {lean_chars(r)})" for p, r in chain) + "]"


def show(s):
    return repr(s).replace("-/", "- /")


def generate():
    chains = {
        "bash": string_constant_chain("src/bash.rs"),
        "fish": string_constant_chain("src/fish.rs"),
        "zsh": string_constant_chain("src/zsh.rs"),
        "pwsh": string_constant_chain("src/pwsh.rs"),
        "dotRegexCmd": dot_string_constant_chain(),
        "dotDfaLabel": dfa_label_chain(),
    }
    starts = {sh: array_start(f"src/{sh}.rs") for sh in ("bash", "fish", "zsh", "pwsh")}
    tchars, escapable = terminal_class()
    builtins = builtin_table()

    labels = diag_labels()
    os.makedirs(OUT, exist_ok=True)
    containers, reads, env_names, versions = nondet_inventory()
    out = []
    out.append("/- GENERATED by tools/translate.py from /repo on every run. Do not edit. -/")
    out.append("namespace Complgen.Gen")
    out.append("/-- order-bearing container types imported or named in src/*.rs: (file, type, origin) -/")
    out.append("def containers : List (String × String × String) := [")
    out.append(",\n".join(f'  ("{f}", "{n}", "{o}")' for f, n, o in containers))
    out.append("]")
    out.append("/-- reads of the run-time environment, clock, thread/process ids, pointer formatting, RNG in src/*.rs -/")
    out.append("def runtimeReads : List (String × String) := [")
    out.append(",\n".join(f'  ("{f}", "{w}")' for f, w in reads))
    out.append("]")
    out.append("/-- versions in Cargo.lock of the crates whose hashers decide iteration order -/")
    out.append("def lockVersions : List (String × String) := [")
    out.append(",\n".join(f'  ("{c}", "{v}")' for c, v in versions))
    out.append("]")
    hashes, eqs = hand_written_impls()
    out.append("/-- types with a hand-written `Hash` impl: (file, type) -/")
    out.append("def handHash : List (String × String) := [")
    out.append(",\n".join(f'  ("{f}", "{t}")' for f, t in hashes))
    out.append("]")
    out.append("/-- types with a hand-written `PartialEq` impl: (file, type) -/")
    out.append("def handEq : List (String × String) := [")
    out.append(",\n".join(f'  ("{f}", "{t}")' for f, t in eqs))
    out.append("]")
    out.append("/-- types that derive `Hash`: (file, type) -/")
    out.append("def derivedHash : List (String × String) := [")
    out.append(",\n".join(f'  ("{f}", "{t}")' for f, t in derived_hash_types()))
    out.append("]")
    out.append("end Complgen.Gen")
    write("Nondet.lean", "\n".join(out) + "\n")
    out = []
    out.append("/- GENERATED by tools/translate.py from /repo on every run. Do not edit. -/")
    out.append("namespace Complgen.Gen")
    out.append("/-- Error variant (lib.rs) -> the first diagnostic line main.rs::handle_error prints for it -/")
    out.append("def diagLabels : List (String × String) := [")
    out.append(",\n".join(f"  ({lean_str(n)}, {lean_str(l)})" for n, l in labels))
    out.append("]")
    for n, l in labels:
        out.append(f"-- {n}: {show(l)}")
    out.append("end Complgen.Gen")
    write("Diag.lean", "\n".join(out) + "\n")
    out = []
    out.append("/- GENERATED by tools/translate.py from /repo on every run. Do not edit. -/")
    out.append("import Complgen.Model.Quote")
    out.append("namespace Complgen.Gen")
    out.append("open Complgen.Quote")
    for name, ch in chains.items():
        out.append(f"/-- {name}: " + " ; ".join(f"{show(p)} -> {show(r)}" for p, r in ch) + " -/")
        out.append(f"def {name}Chain : Chain := {lean_chain(ch)}")
    out.append("end Complgen.Gen")
    write("Chains.lean", "\n".join(out) + "\n")

    out = []
    out.append("/- GENERATED by tools/translate.py from /repo on every run. Do not edit. -/")
    out.append("import Complgen.Basic")
    out.append("namespace Complgen.Gen")
    out.append("def arrayStart : Shell → Nat")
    for sh in ("bash", "fish", "zsh", "pwsh"):
        out.append(f"  | .{sh} => {starts[sh]}")
    out.append(f"/-- punctuation admitted in a literal besides ASCII alphanumerics: {show(''.join(tchars))} -/")
    out.append(f"def terminalPunct : List Char := {lean_chars(tchars)}")
    out.append(f"/-- characters that may follow a backslash in a literal: {show(''.join(escapable))} -/")
    out.append(f"def terminalEscapable : List Char := {lean_chars(escapable)}")
    out.append("/-- built-in completion commands: (nonterminal, shell, command text) -/")
    out.append("def builtinTable : List (String × Shell × String) := [")
    rows = []
    for var, sh, cmd in builtins:
        rows.append(f"  ({lean_str(var)}, .{sh}, {lean_str(cmd)})  -- {var} {sh} {show(cmd)}")
    out.append(",\n".join(r.split("  --")[0] for r in rows))
    out.append("]")
    out.append("end Complgen.Gen")
    write("Tables.lean", "\n".join(out) + "\n")


def write(name, content):
    path = os.path.join(OUT, name)
    old = None
    if os.path.exists(path):
        with open(path, encoding="utf-8") as f:
            old = f.read()
    if old != content:  # keep mtimes stable so lake does not rebuild needlessly
        with open(path, "w", encoding="utf-8") as f:
            f.write(content)


if __name__ == "__main__":
    try:
        generate()
    except Refuse as e:
        print(f"translate: REFUSE: {e}", file=sys.stderr)
        sys.exit(2)
