#!/bin/bash
# tools/seedtest.sh <patch.diff> <property id>... : applies a seeded change to /repo, runs the quick
# checks of the given properties, reverts the change. Prints one line per check.
patch=$1; shift
git -C /repo apply "$patch" || { echo "patch does not apply"; exit 2; }
for id in "$@"; do
  start=$(date +%s)
  out=$(cd /verif && ./check "$id" --tier quick 2>/dev/null); rc=$?
  echo "== $id rc=$rc ($(( $(date +%s) - start )) s)"; echo "$out" | grep -E "VIOLATION|KNOWN" | cut -c1-220
done
git -C /repo checkout -- .
