# Non-interactive runner for an emitted bash completion script.
#   bash --norc --noprofile tools/bashrun.bash <script> <command name> [probe-table] < batch
# batch: one request per line:  <COMP_WORDBREAKS hex | D for bash's default> <word hex>...   (words
# include the command name; the last word is the partially typed one).
# Output per request (NUL separated):  RC=<rc> NUL candidate NUL ... \x01END NUL
# The three-line stub stands for bash-completion's _get_comp_words_by_ref.
_get_comp_words_by_ref () { while [[ $1 == -* ]]; do shift 2; done; words=("${COMP_WORDS[@]}"); cword=$COMP_CWORD; }

__unhex () {
    local h=$1 s= i
    if [[ $h == e ]]; then __out=; return; fi
    for ((i = 0; i < ${#h}; i += 2)); do s+="\\x${h:i:2}"; done
    printf -v __out '%b' "$s"
}

# Probe commands (C17): `__probe <k> "$1" "$2"` logs its identity and arguments and prints the
# fixed lines registered for k in the probe table (file: lines "k<TAB>hex-of-output").
declare -A __probe_out=()
if [[ -n $3 && -f $3 ]]; then
    while IFS=$'\t' read -r k h; do __unhex "$h"; __probe_out[$k]=$__out; done < "$3"
fi
__probe () {
    printf 'PROBE\t%s\t%s\t%s\n' "$1" "$2" "$3" >> "$__probe_log"
    printf '%s' "${__probe_out[$1]}"
}

__probe_log=${4:-/dev/null}
__have_probes=$3
__default_wb=$COMP_WORDBREAKS
source "$1" 2>/dev/null
__cmd=$2
while IFS= read -r __line; do
    set -- $__line
    if [[ $1 == D ]]; then COMP_WORDBREAKS=$__default_wb; else __unhex "$1"; COMP_WORDBREAKS=$__out; fi
    shift
    COMP_WORDS=()
    for __h in "$@"; do __unhex "$__h"; COMP_WORDS+=("$__out"); done
    COMP_CWORD=$((${#COMP_WORDS[@]} - 1))
    COMPREPLY=()
    [[ -n $__have_probes ]] && : > "$__probe_log"
    "_$__cmd" 2>/dev/null
    printf 'RC=%d\0' $?
    for __c in "${COMPREPLY[@]}"; do printf '%s\0' "$__c"; done
    if [[ $__probe_log != /dev/null ]]; then
        printf '\x02LOG\0'
        while IFS= read -r __l; do printf '%s\0' "$__l"; done < "$__probe_log"
    fi
    printf '\x01END\0'
done
