#!/bin/bash
# tools/confirm_seed.sh <ID> <n>: confirms seeded change n of property ID in the scratch worktree /tmp/mut/<ID>
# (applies, builds, 59 tests pass, demo fails with the change and passes without) and stores it in /verif/seeded/<ID>-<n>/.
ID=$1; n=$2; W=/tmp/mut/$ID; O=/tmp/mut/$ID.out
export CARGO_NET_OFFLINE=true
cd $W || exit 2
git checkout -q -- . ; git checkout -q --detach main 2>/dev/null
head=$(git rev-parse --short HEAD)
res() { echo "$1"; }
git apply --check $O/patch$n.diff || { echo "$ID-$n: patch does not apply on $head"; exit 1; }
cargo build --offline >/dev/null 2>&1 || { echo "$ID-$n: base build failed"; exit 1; }
base_demo=$(bash $O/demo$n.sh $W/target/debug/complgen >/tmp/mut/$ID.base$n.log 2>&1; echo $?)
git apply $O/patch$n.diff
cargo build --offline >/dev/null 2>&1; build=$?
tests=$(cargo test --workspace --no-fail-fast --offline 2>&1 | grep -E "^test result" | head -1)
mut_demo=$(bash $O/demo$n.sh $W/target/debug/complgen >/tmp/mut/$ID.mut$n.log 2>&1; echo $?)
git checkout -q -- .
cargo build --offline >/dev/null 2>&1
echo "$ID-$n: head=$head build=$build tests=[$tests] demo_base=$base_demo demo_mut=$mut_demo"
if [[ $build == 0 && $tests == *"59 passed; 0 failed"* && $base_demo == 0 && $mut_demo != 0 ]]; then
  d=/verif/seeded/$ID-$n; mkdir -p $d
  cp $O/patch$n.diff $d/patch.diff; cp $O/demo$n.sh $d/demo.sh
  tail -c 1500 /tmp/mut/$ID.mut$n.log > $d/demo_output_with_change.txt
  echo "{\"confirmed\": {\"repo_head\": \"$head\", \"build\": \"ok\", \"tests\": \"$tests\", \"demo_exit_unchanged\": $base_demo, \"demo_exit_with_change\": $mut_demo}}" > $d/confirm.json
  echo "$ID-$n: KEPT"
else
  echo "$ID-$n: NOT KEPT"
fi
