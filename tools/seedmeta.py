#!/usr/bin/env python3
"""Writes seeded/<id>-<n>/meta.json from the descriptions below + confirm.json (written by
tools/confirm_seed.sh) + detection results (seeded/RESULTS.json, written by tools/seedrun.py)."""
import json
import os

V = os.path.dirname(os.path.dirname(os.path.abspath(__file__)))
D = {
 "C07-3": ("src/bash.rs write_literals no longer quotes; two of its three callers quote beforehand, write_subword_shape_wrapper_fn passes the raw texts",
           "two within-word expressions of identical shape (they share a table-reading function) with a literal containing a character special to bash"),
 "C10-3": ("src/bash.rs: the per-automaton LookupTables are built by worker threads in batches of 256 and collected over a channel into the HashMap that is iterated afterwards",
           "more than 256 distinct within-word automata, several of the same shape; bash output only"),
 "C11-3": ("src/check.rs from_grammar: the set of 'defined' nonterminals is built from all definition statements, @shell ones included",
           "PATH or DIRECTORY with an @shell definition for another shell and no plain definition"),
 "C12-3": ("src/bash.rs emitted __complgen_match: glob test replaced by a substring comparison with -gt instead of -ge, so a candidate equal to the typed text is dropped",
           "within-word values where one is a prefix of another and the typed word is exactly the shorter value"),
 "C13-3": ("src/check.rs do_check_subword_spaces: early return after pushing the reference span for definitions that are a lone command or literal (the pop is skipped)",
           "a spaces-inside-a-word mistake plus an earlier reference to a nonterminal defined as a single command or literal"),
 "C14-3": ("src/parse.rs comment(): a comment stops at the first carriage return or line feed",
           "a # comment containing a carriage return that is not followed by a line feed"),
 "C15-3": ("src/check.rs from_grammar: the specialisation of the definition bodies moved after the snapshot of the unused specialisations",
           "a definition for the target shell that is referred to only from definition bodies"),
 "C16-3": ("src/dfa.rs do_to_dot numbers the within-word clusters by intern-pool index instead of get_subwords order",
           "two within-word automata, the one written later in the text reachable earlier in the automaton"),
 "C17-3": ("src/bash.rs write_match_transitions: `local -A command_transitions=()` no longer emitted for an automaton without command transitions (the caller's table shows through)",
           "a top-level command, a word containing a command, and a literal-only word whose state number is also a top-level command state, typed with a tail no literal continues"),
 "C01-3": ("src/bash.rs emitted top-level walk: `local command_candidates_seen=0` moved out of the per-word loop, so the flag survives from one word to the next",
           "a top-level command with candidates earlier on the line, then a foreign last complete word at a state where no command is expected"),
 "C03-3": ("src/dfa.rs DFAInternPool::intern minimises its argument again; minimisation is not idempotent once the start state has been renumbered to the dead-state id 0",
           "a within-word expression whose minimal automaton loops back into its start state (the word begins with an optional repetition) next to a state that differs only in that"),
 "C04-3": ("the three private make_string_constant copies of bash.rs/fish.rs/zsh.rs replaced by one shared function with the fish body (no backtick escaping for bash and zsh)",
           "a literal or description containing a backtick"),
 "C05-3": ("src/parse.rs comment(): take_till(newline) replaced by nom's not_line_ending, which fails on a carriage return not followed by a line feed",
           "a # comment containing a lone carriage return"),
 "C06-3": ("src/check.rs do_distribute_descriptions: the DistributiveDescription arm returns the wrapper node itself when nothing changed underneath",
           "a description attached to something with no undescribed literal underneath, e.g. `<FILE> \"d\"` or `({{{ ls }}}) \"d\"`"),
 "C08-3": ("src/dfa.rs do_check_ambiguity_best_effort: the literal transitions of a state are compared per (literal, fallback level) instead of per literal",
           "the same literal with two different descriptions on opposite sides of a `||`"),
 "C09-3": ("src/regex.rs Regex equality/hash ignore source spans + src/dfa.rs DFAInternPool becomes a plain Vec (no structural interning of minimised automata)",
           "two differently spelled within-word expressions with the same minimal automaton expected at one point, followed by different continuations"),
 "C01-1": ("src/tables.rs shape_hash and isomorphic_to (two cooperating sites) no longer look at the completion tables",
           "two same-shaped within-word expressions in one grammar, one using `||` and one using `|` inside the word; they then share one emitted table set"),
 "C01-2": ("src/bash.rs emitted __complgen_match: the typed prefix is no longer %q-quoted and acts as a glob pattern",
           "a partially typed word containing * ? or ["),
 "C03-1": ("src/dfa.rs do_minimize: stops using a splitter once the splitter itself has been split (`break` when the popped block left the partition)",
           "a block split by its own preimage (a `...` loop inside one block) plus another symbol that alone separates two states; ~4 of 1200 random grammars"),
 "C03-2": ("src/dfa.rs do_minimize: the start state gets a singleton block in the initial partition",
           "an automaton in which some other state is equivalent to the start state (separator-style loops such as `a [b a]...`)"),
 "C02-1": ("src/check.rs specialize_nonterminals: the 'has a plain definition' case hoisted before the shell-specific lookup, so a plain <X> beats <X@shell>",
           "a nonterminal with both a plain definition and a specialisation for the shell being compiled"),
 "C02-2": ("src/check.rs do_propagate_fallback_levels: Fallback arm passes fallback_level + i instead of i",
           "a `||` nested inside a branch (index >= 1) of another `||`, inline or through a definition"),
 "C04-1": ("src/tables.rs shape_hash / isomorphic_to no longer look at the per-level literal completion tables",
           "two within-word expressions with identical match transitions and the same number of `||` levels but literals on different levels; they then share one table set"),
 "C04-2": ("src/bash.rs: per-sub-DFA flags decide whether a within-word wrapper declares command/star tables; a wrapper without them reads the caller's tables (dynamic scoping)",
           "one within-word expression with a command, another with literals only, and a main-automaton command transition out of a state whose number is also a state of the literal-only one"),
 "C05-1": ("src/parse.rs terminal(): progress made by the backslash-escape stage is no longer counted, the lexer stops after an initial escape",
           "a literal that starts with an escape (or has one right after a dot run) followed by regular characters, e.g. `\\(abc`"),
 "C05-2": ("src/parse.rs: a blank-separated `...` wraps the whole word instead of its last factor",
           "a word of >= 2 juxtaposed factors followed by blanks/comment and `...`"),
 "C06-1": ("src/main.rs: destination file opened before the last check (check_ambiguity_best_effort)",
           "a grammar rejected only by the final ambiguity check (ConflictingDescriptions / AmbiguousDFA) and a file destination"),
 "C06-2": ("src/check.rs get_nonterminals_resolution_order returns early when there are fewer than 2 definitions",
           "exactly one plain definition that refers to itself and is used: stack overflow in check_subword_spaces"),
 "C07-1": ("src/bash.rs make_string_constant rewritten as a single pass that doubles a backslash only before \\ \" $ `",
           "a literal that ends in a backslash"),
 "C07-2": ("src/bash.rs emitted word-matching loop: operands swapped, the literal is now an unquoted pattern",
           "a literal containing * ? [..] or a backslash and a typed word that differs from it"),
 "C08-1": ("src/check.rs do_check_subword_spaces: 'descend into each definition once' memo that ignores the in-word context",
           "a nonterminal referenced first as a whole word and later inside a word, whose definition has two space-separated literals"),
 "C08-2": ("src/parse.rs get_specializations: other-shell definitions are skipped before the non-command check",
           "a non-command `<X@S>` definition, compiled for a shell other than S"),
 "C09-1": ("src/dfa.rs do_check_ambiguity_best_effort returns early (also skipping the descent) at states with < 2 transitions",
           "conflicting descriptions of one literal with different continuations behind a mandatory word"),
 "C09-2": ("src/check.rs do_propagate_fallback_levels: nested `||` levels accumulate",
           "a `||` nested in a non-first branch of another `||` plus the same literal elsewhere at its former level with a different continuation"),
 "C10-1": ("src/dfa.rs get_commands collects sub-DFA ids in a std::collections::HashSet (random state) and iterates it",
           ">= 2 distinct commands that occur only inside words, in >= 2 different within-word automata; fresh processes"),
 "C10-2": ("src/lib.rs signature() prefers the run-time environment variable COMPLGEN_VERSION",
           "COMPLGEN_VERSION set in the environment of the running binary"),
 "C11-1": ("src/parse.rs get_specializations keyed by name only: the textually last @shell definition of a name wins",
           "a nonterminal specialised for >= 2 shells, compiled for a shell whose definition is not the last one"),
 "C11-2": ("src/check.rs specialize_nonterminals consumes (removes) the specialisation at its first use",
           "a target-shell-specialised nonterminal referenced more than once"),
 "C12-1": ("src/bash.rs within-word loop: a length pre-filter `continue` skips the prefix-stop test",
           "a shorter allowed value that is a prefix of the typed text (a prefix chain inside a word)"),
 "C12-2": ("src/dfa.rs get_top_level_literals_decreasing_length sorts by fallback level first",
           "a within-word prefix chain under `||` with the shorter value on an earlier level"),
 "C13-1": ("src/main.rs: the input text is trimmed before parsing and rendering",
           "a usage file that begins with blank lines or indentation"),
 "C13-2": ("src/parse.rs grammar(): explicit statement loop propagates the inner parser's error position",
           "a syntax error inside a nonterminal definition, not at its first character"),
 "C14-1": ("src/parse.rs terminal_opt_description_expr skips only whitespace (not comments / form feeds) before a literal's own description",
           "a word of several literals whose last literal has a description separated from it by a comment or form feed"),
 "C14-2": ("src/check.rs from_grammar skips the plain definition of a name that already has a @shell definition seen earlier in source order",
           "a nonterminal with a @shell definition written before its plain definition, compiled for another shell"),
 "C15-1": ("src/check.rs specialize_nonterminals removes a name from the unused set only in the 'defined' branch",
           "a used name with a plain command definition and a specialisation for the target shell"),
 "C15-2": ("src/check.rs from_grammar computes undefined names from the unexpanded call variants plus every definition body",
           "a definition not reachable from the call variants that mentions an otherwise undefined name"),
 "C16-1": ("src/dfa.rs to_dot: the start-node shape of the top-level automaton is forwarded into within-word clusters",
           "a grammar that accepts the empty command line and has a within-word automaton"),
 "C16-2": ("src/regex.rs make_dot_string_constant stops doubling backslashes",
           "a command text with a backslash right before a double quote, or ending in a backslash"),
 "C17-1": ("src/check.rs do_propagate_fallback_levels caches rewritten nodes by ExprId, ignoring the level",
           "a nonterminal whose definition contains a command, referenced from two places at different `||` levels"),
 "C17-2": ("src/bash.rs emitted top-level loop compares a command candidate with the unquoted word",
           "an earlier word with * ? [..] or a backslash at a point that expects a command"),
 # ---- round 4
 "C01-4": ("src/bash.rs emitted COMP_WORDBREAKS stripping: `${prefix##*$char}` became `${prefix#*\"$char\"}` (strips up to the first instead of the last occurrence)",
           "a partially typed word that contains the same word-break character twice (`--color=fg=r`, `http://alpha:8`) with a non-empty COMP_WORDBREAKS"),
 "C02-4": ("src/check.rs do_distribute_descriptions, Alternative arm: the branches share one pending-description slot, so only what the last branch left survives",
           "`( … ) \"descr\"` around a sequence that starts with an alternative with a branch that cannot take the description and a last branch that does, followed by a plain literal"),
 "C03-4": ("src/dfa.rs DFA::minimize skips the partition refinement unless two states have the same acceptance and the same outgoing (input, target) pairs",
           "states that are equivalent only through targets that are themselves different-but-equivalent states (two parallel chains)"),
 "C04-4": ("src/tables.rs / dfa.rs: the map from a transition's literal to its id in the emitted literal list is keyed by the text alone instead of (text, description)",
           "the same literal text at two states with different descriptions (or described once, bare once); fish, zsh, pwsh tables"),
 "C05-4": ("src/parse.rs flatten_expr: the Alternative and Fallback arms merged into one that always rebuilds an Alternative",
           "a `||` inside a word one of whose branches is itself a juxtaposition (`--option=(pri<N> || secondary)`)"),
 "C06-4": ("src/main.rs: byte columns converted to character columns by slicing the source line at the byte column of the span end",
           "a parse error at a statement that begins with a non-ASCII character (BOM, typographic quote): the slice lands inside the character and panics"),
 "C07-4": ("src/bash.rs: the top-level per-state literal table is keyed by the literal text and the table string wrapped in single quotes",
           "a literal containing an apostrophe used as a whole word at top level (closes the outer quotes; `$HOME` and backticks then expand)"),
 "C08-4": ("src/check.rs get_nonterminals_resolution_order: after the roots only one more traversal is started, from the first unreached vertex",
           "a cycle not reachable from any acyclic definition, one of whose members also refers to an acyclic definition that hash order puts first"),
 "C09-4": ("src/bash.rs write_subword_fn: the loop variable of the within-word completion loop renamed to `fallback_level` (global in bash: overwrites the caller's `||` level)",
           "a within-word expression in a non-last `||` branch, a typed prefix nothing of that level extends, the wanted candidate in the next branch"),
 "C10-4": ("src/regex.rs: RegexInput gets a hand-written PartialEq/Eq that ignores the span while Hash stays derived (and hashes the span): equality coarser than the hash on the key of the randomly seeded RegexInternPool",
           "the same within-word expression written at many source positions; the --regex file compared across fresh processes (about 1/128 per pair per run)"),
 "C11-4": ("src/check.rs from_grammar: the loop that expands definitions into one another moved before the two specialisation passes",
           "a nonterminal with a plain and a target-shell definition referred to from inside another definition"),
 "C12-4": ("src/bash.rs: the mode word `matches` of `_<cmd>_subword` renamed to `match` at the call and the early return, not in the stop-rule guard",
           "a prefix chain among within-word values, a fully typed value that is not the longest, and another word after it"),
 "C13-4": ("src/parse.rs terminal_opt_description_expr reuses an existing literal node with the same text / description (the key leaves out the span)",
           "a diagnostic located at a literal (adjacent literals inside a word) whose text already occurs earlier in the file"),
 "C14-4": ("src/parse.rs nonterm_def_statement: `alt((tag(\"::=\"), tag(\"=\")))` became `opt(tag(\"::\"))` + `is_a(\"=\")` (takes the longest run of `=`)",
           "a definition whose body starts with a literal beginning with `=`, laid out with no blank after the operator"),
 "C15-4": ("src/main.rs: the 'Unused specialization' warning is printed with println! instead of eprintln!",
           "a definition for the target shell that no statement refers to; script emitted to stdout"),
 "C16-4": ("src/dfa.rs do_to_dot: transitions whose target is DEAD_STATE_ID (= 0, after renumbering the start state) are skipped",
           "an automaton (top level or within a word) with a transition back into its start state (`a [b a]...`)"),
 "C17-4": ("src/bash.rs: the candidates of a command are ordered by `sort -rk2` instead of `sort -nrk2,2 -rk3` (lengths compared as text)",
           "a command inside a word followed by more of the word, two candidates one a prefix of the other, the longer one of 10+ characters"),
}


def main():
    res = {}
    rp = os.path.join(V, "seeded", "RESULTS.json")
    if os.path.exists(rp):
        res = json.load(open(rp))
    for key, (what, needs) in D.items():
        d = os.path.join(V, "seeded", key)
        if not os.path.isdir(d):
            continue
        meta = {"breaks_property": key.split("-")[0], "change": what, "needs_to_manifest": needs,
                "demonstration": "demo.sh <path to complgen binary>: exit 0 on the unchanged code, non-zero with the change",
                "source": "written by an independent sub-agent that saw only the property text and a scratch worktree of /repo"}
        cp = os.path.join(d, "confirm.json")
        if os.path.exists(cp):
            meta.update(json.load(open(cp)))
            meta["what_was_run"] = ("tools/confirm_seed.sh: git apply in a scratch worktree of /repo; cargo build --offline; cargo test --workspace "
                                    "--no-fail-fast --offline (59 passed); demo.sh with and without the change")
        if key in res:
            meta["detected_by"] = res[key]
        with open(os.path.join(d, "meta.json"), "w") as f:
            json.dump(meta, f, indent=1, ensure_ascii=False)
    print("meta written for", len(D))


if __name__ == "__main__":
    main()
