#!/usr/bin/env python3
"""Runs the quick checks against the seeded changes, each applied to a private copy of the repository
(never to /repo itself).  Meant for `vp run --with-repo -- python3 tools/seedrun.py [seed ...]`; also works
from /verif (then it copies /repo's HEAD).  Results: seeded/RESULTS.json  {seed: {property: "caught"|"missed"|...}}.
usage: seedrun.py [--props C01,C02 | --own] [seed-name ...]"""
import json
import os
import shutil
import subprocess
import sys
import time

V = os.path.dirname(os.path.dirname(os.path.abspath(__file__)))


def sh(cmd, **kw):
    return subprocess.run(cmd, shell=True, capture_output=True, text=True, **kw)


def main():
    args = sys.argv[1:]
    props = None
    if args and args[0] == "--props":
        props = args[1].split(",")
        args = args[2:]
    elif args and args[0] == "--own":
        args = args[1:]
    seeds = args or sorted(d for d in os.listdir(os.path.join(V, "seeded")) if os.path.isdir(os.path.join(V, "seeded", d)))
    src = os.environ.get("VP_RUN_REPO")
    alt = os.path.join(V, "work", "altrepo")
    os.makedirs(os.path.join(V, "work"), exist_ok=True)
    shutil.rmtree(alt, ignore_errors=True)
    if src:
        sh(f"rsync -a --exclude target {src}/ {alt}/")
    else:
        sh(f"git clone -q /repo {alt}")
    env = dict(os.environ, VERIF_REPO=alt, CARGO_NET_OFFLINE="true")
    print(sh("./setup.sh 2>&1 | tail -3", cwd=V, env=env).stdout, flush=True)
    claimed = [c["property_id"] for c in json.load(open(os.path.join(V, "MANIFEST.json")))["checks"]]
    rp = os.path.join(V, "seeded", "RESULTS.json")
    results = json.load(open(rp)) if os.path.exists(rp) else {}
    for seed in seeds:
        own = seed.split("-")[0]
        todo = props or [own]
        todo = [p for p in todo if p in claimed]
        if not todo:
            print(f"{seed}: property not claimed yet, skipped", flush=True)
            continue
        sh("git checkout -q -- . 2>/dev/null; git status --short", cwd=alt)
        r = sh(f"git apply {V}/seeded/{seed}/patch.diff", cwd=alt)
        if r.returncode != 0:
            print(f"{seed}: patch does not apply: {r.stderr[:200]}", flush=True)
            continue
        for p in todo:
            t0 = time.time()
            r = sh(f"./check {p} --tier quick", cwd=V, env=env)
            vio = [l for l in r.stdout.splitlines() if l.startswith("VIOLATION")]
            verdict = "caught" if r.returncode == 1 and vio else ("missed" if r.returncode == 0 else f"error rc={r.returncode}")
            if vio and all("no-failing-input-found" in v for v in vio):
                verdict = "caught (proof/correspondence broken, no failing input found)"
            kinds = [v.split("replay=")[1].split("/")[-1].split()[0] for v in vio]
            results.setdefault(seed, {})[p] = {"verdict": verdict, "replays": kinds, "wall_s": round(time.time() - t0)}
            print(f"{seed} {p}: {verdict} {kinds} ({round(time.time() - t0)} s)", flush=True)
            with open(rp, "w") as f:
                json.dump(results, f, indent=1)
        sh("git checkout -q -- .", cwd=alt)
    shutil.rmtree(alt, ignore_errors=True)


if __name__ == "__main__":
    main()
