#!/bin/bash
# tools/soak.sh <seed>... : runs every claimed quick check with each seed on the unchanged tree; prints alarms
cd "$(dirname "$0")/.."
./setup.sh > /dev/null 2>&1
for seed in "$@"; do
  for id in $(python3 -c "import json;print(' '.join(c['property_id'] for c in json.load(open('MANIFEST.json'))['checks']))"); do
    out=$(VERIF_SEED=$seed ./check $id --tier quick 2>/dev/null); rc=$?
    v=$(echo "$out" | grep -c "^VIOLATION")
    echo "seed=$seed $id rc=$rc violations=$v"
    if [ $rc -ne 0 ]; then echo "$out" | grep "^VIOLATION"; mkdir -p soak; cp replays/$id-*.json soak/ 2>/dev/null; fi
  done
done
